#!/venv/bin/python
"""Regenerate /verif/MANIFEST.json from the table below (single source of truth) and validate it."""
import json, os, subprocess, sys

VERIF = os.path.dirname(os.path.dirname(os.path.abspath(__file__)))

# id -> (design section, level text, level note, technique)
CHECKS = {
    "C02": ("DESIGN.md 5/C02",
            "Bounded-exhaustive exploration of the real code: every (axis, start, stop, step, spelling) of the stated bounded "
            "family is executed on the working tree in lock-step with a pure-Python reference slice model; a label-slice "
            "off-by-one / wrap-around needs only a handful of labels to show, so small-scope exhaustiveness is the right level.",
            "trusts mc/ref.py (bounding-box / strict slice rules as stated), np.arange(n)[i:j:k] for position slices; axis length <= 5 (int64 / float64 labels, plus uint8 / uint64 / int8 labels on 3-label axes), unique labels",
            "explicit-state exhaustive enumeration of inputs (depth-1 model checking of the implementation against a reference model)"),
    "C04": ("DESIGN.md 5/C04",
            "All ordered pairs of a pool of small arrays (every dimension subset/order, every label relation and storage order) x 6 "
            "operators, each result recomputed per label coordinate from the operands; misalignment shows on 2-3 labels per axis.",
            "trusts numpy ufuncs on scalars for the arithmetic itself and mc/ref.py coordinate maps; default options only; <=3 (quick) / 4 (thorough) dims; axis length <= 4 plus two long axes (9 and 12 labels)",
            "explicit-state exhaustive enumeration of operand pairs executed on the implementation, coordinate-wise reference oracle"),
}

CHECKS.update({
    "C01": ("DESIGN.md 5/C01",
            "Every (array, per-dimension index menu, spelling, indexing.by option) of the bounded family is executed on the working tree "
            "and compared with an orthogonal first-match reference selection; absent labels must raise IndexError; tolerance lookups on a "
            "quarter-step grid. Index-resolution bugs depend on the relative order of 2-3 labels, so small-scope exhaustiveness is decisive.",
            "trusts mc/ref.py (first match, nearest-within-tol, nested-loop orthogonal selection) and np.arange(n)[ix] for positions; <=3-D quick / 4-D thorough, axis length 2-3",
            "explicit-state exhaustive enumeration of inputs and configurations on the implementation, lock-step reference model"),
    "C03": ("DESIGN.md 5/C03",
            "Every (array kind, index form, RHS form, spelling, inplace) is executed; the post-state is compared cell by cell with the reference "
            "positions x broadcast RHS, everything else must be byte-identical, the same index is read back; full cast table.",
            "trusts mc/ref.py positions (shared with C01/C02) and NumPy broadcasting of the RHS; repeated positions with array RHS and cast=False across kinds are unspecified",
            "explicit-state exhaustive enumeration of (state, assignment) pairs with differential read-back"),
    "C07": ("DESIGN.md 5/C07",
            "Every (array, axis position, new label sequence, form, fill, raise_error, method) executed and compared slice by slice with a "
            "first-match reference; method=left/right against np.searchsorted on the sorted labels (the oracle the property names).",
            "trusts mc/ref.py and np.searchsorted; axis length 0-4; unique source labels",
            "explicit-state exhaustive enumeration of inputs on the implementation, lock-step reference model"),
})

CHECKS.update({
    "C06": ("DESIGN.md 5/C06",
            "All lists of 1-3 (4) inputs from a pool of arrays/Datasets covering every label relation and storage order x join x sort x axis are "
            "aligned on the working tree; outputs are compared with python set union / intersection, sortedness rule, per-coordinate values and input snapshots.",
            "trusts python sets / coordinate maps of mc/ref.py; label order only constrained when all inputs are sorted the same way; strict= not covered",
            "explicit-state exhaustive enumeration of input lists executed on the implementation against a set-based reference"),
    "C08": ("DESIGN.md 5/C08",
            "Every shape with sizes 1-3(4) up to 4-D x NaN pattern x reduction x axis spelling (None/position/name/negative/ordered tuples) x skipna is "
            "executed; each output cell is recomputed with NumPy's function on the slice members gathered by the reference's own loops.",
            "trusts np.<f> on 1-D member lists (oracle named by the property); rtol 1e-12; all-NaN slices accept NaN or identity",
            "explicit-state exhaustive enumeration of (array, reduction, axis, skipna) on the implementation, per-slice NumPy oracle"),
    "C09": ("DESIGN.md 5/C09",
            "Every operated-axis position/size/label kind x cumsum/cumprod/diff(n, scheme, keepaxis)/argmin/argmax executed and compared fibre by fibre "
            "with np.cumsum/np.cumprod/np.diff and with the extremum reached through the returned labels.",
            "trusts np.cumsum/cumprod/diff/min/max on 1-D fibres; keepaxis+centered and diff(axis=None) not covered",
            "explicit-state exhaustive enumeration of (array, operation) on the implementation, per-fibre NumPy oracle"),
})

CHECKS.update({
    "C10": ("DESIGN.md 5/C10",
            "Every permutation / axis pair / (axis,start) / insertion position / squeeze / repeat / broadcast target and every depth-2 composition of "
            "them is executed on arrays whose axes differ in kind and length; results are compared with reference ops and, independently, cell by cell "
            "through the label-coordinate map of the input.",
            "trusts reference ops + coordinate maps (mc/props/c10.py, mc/ref.py); T on >2-D and labels of size-1 broadcast insertions not covered",
            "explicit-state exhaustive enumeration of operations and depth-2 operation sequences on the implementation, coordinate-map oracle"),
    "C11": ("DESIGN.md 5/C11",
            "Every ordered subset x container x insert x reverse for flatten, unflatten of each, reshape to every ordered partition of every permutation "
            "(with new names / dropped singletons, also from grouped arrays) and tuple-vs-flattened reductions are executed; each result is checked through "
            "a layout map (row-major unravel of grouped positions) against the input cells and member axes.",
            "trusts the layout map in mc/props/c11.py; grouped tuple labels compared up to str(); default insert position unconstrained",
            "explicit-state exhaustive enumeration of regrouping operations on the implementation, layout-map oracle"),
})

CHECKS.update({
    "C12": ("DESIGN.md 5/C12",
            "All lists / dicts of 1-3 (4) square-shaped arrays with every per-array variant of the secondary axes (equal / permuted / overlapping / "
            "disjoint / other dimension order) are stacked and concatenated (every axis, align, sort); each slice / block is compared with its input by "
            "dimension name and label, refusals must be ValueError.",
            "trusts coordinate maps of the inputs (mc/ref.py); label order of aligned secondary axes not constrained (C06)",
            "explicit-state exhaustive enumeration of near-miss input lists on the implementation, by-name coordinate oracle"),
    "C17": ("DESIGN.md 5/C17",
            "Every NaN pattern of small arrays (structured patterns above 6 cells) x sort_axis / take_axis / compress_axis / dropna(minvalid 0..size) / "
            "fillna / setna forms is executed and compared with slice-wise reference selections built by loops.",
            "trusts python sorted() and np.arange(n).take(ix, mode) for positional modes; N-d compress() not covered",
            "explicit-state exhaustive enumeration of (array, NaN pattern, operation) on the implementation, lock-step reference model"),
    "C18": ("DESIGN.md 5/C18",
            "Every storage order of 1-4 numeric labels at every axis position x new coordinate vectors (below/on/between/above, unsorted, empty) x fills x "
            "issorted, plus Dataset and interp_like variants, compared fibre by fibre with np.interp on the label-sorted fibre; cell values are non-linear.",
            "trusts np.interp (oracle named by the property), rtol 1e-12",
            "explicit-state exhaustive enumeration of (array, new coordinates, options) on the implementation, per-fibre NumPy oracle"),
})

CHECKS.update({
    "C13": ("DESIGN.md 5/C13",
            "Explicit-state breadth-first search over histories of Dataset mutations (about 60 parameterised events incl. rejected assignments, renames, "
            "relabelling through the dataset / a variable / in bulk) from 4 start states; each transition runs on the real Dataset in lock-step with a "
            "reference model and all sharing / pruning / rollback invariants are evaluated in every reached state; states de-duplicated on a canonical form.",
            "trusts RefDS in mc/props/c13.py; depth 3 (quick) / 5 (thorough); renames to names in use only as whole-name permutations; key order and attrs not covered",
            "explicit-state BFS over operation histories of the real Dataset (state = replayed history, canonical-form de-duplication) against a reference model"),
    "C14": ("DESIGN.md 5/C14",
            "Every Dataset-level operation form (indexing spellings, reductions, take/sort/reindex/interp axis, arithmetic, stack_ds/concatenate_ds) on 6 "
            "Datasets with 0-d variables and variables lacking the dimension is compared, variable by variable, with the DimArray operation on that variable.",
            "differential: the DimArray path is the reference (itself checked by C01-C18); key order not covered",
            "explicit-state exhaustive enumeration of (dataset, operation) executed on the implementation, differential per-variable oracle"),
    "C16": ("DESIGN.md 5/C16",
            "Routing: BFS over histories of attribute events (set/get/has/del for public, underscore, class-member and dimension names, direct attrs "
            "edits) on DimArray, Dataset and Axis against a rule table; propagation: every operation class named by the property on arrays carrying "
            "array- and axis-level metadata under every class of name.",
            "trusts the rule table in mc/props/c16.py (transcription of the statement); depth 3 (quick) / 4 (thorough)",
            "explicit-state BFS over attribute-access histories on the real objects + exhaustive sweep of operation classes"),
})

CHECKS.update({
    "C05": ("DESIGN.md 5/C05",
            "Three explorations: (1) every constructor form x logical array must build equal arrays, ~36 malformed constructions must be rejected; (2) a "
            "wrapper around DimArray.__init__ (installed from the harness) validates every array - intermediates included - constructed while the ~175-entry "
            "union alphabet runs; (3) BFS over programs of producers / cache-filling queries / in-place mutators on two registers: after every transition each "
            "register must answer a 20-probe set exactly like a freshly constructed twin; states de-duplicated on snapshot + hidden cache signature.",
            "trusts the fresh-twin builder and probe set in mc/props/c05.py; BFS depth 2 (quick) / 4 (thorough); comma-free names; nested grouping not covered",
            "exhaustive sweep of constructor forms and operation alphabet under a constructor monitor + explicit-state BFS over operation histories with a differential fresh-twin oracle"),
    "C15": ("DESIGN.md 5/C15",
            "Every entry of the union alphabet is executed on four operand variants built to make mutation visible (unsorted axes, nested mutable metadata, "
            "squeeze / transpose aliases sharing Axis objects, ';' in a name); snapshots of all operands and aliases are compared around the call; a strided "
            "sample of every other property's argument classes is re-executed for the same purpose; copy() followed by each in-place mutator on either side.",
            "trusts common.snap() (values bytes, dtype, dims, labels, axis metadata, metadata deep-frozen); result/operand aliasing not covered",
            "exhaustive enumeration of (operand variant, operation, argument class) on the implementation with before/after snapshots; depth-2 copy-then-mutate exploration"),
})

CHECKS.update({
    "C19": ("DESIGN.md 5/C19",
            "JSON: every array of the bounded family (all value / label kinds, NaN, JSON-able and non JSON-able metadata) round-trips.  netCDF: BFS over "
            "write programs (Dataset.write_nc, DimArray.write_nc w/a/a+, open_nc(...)[name]=array; NETCDF4 and NETCDF3_CLASSIC) through the vendored "
            "netCDF4 stand-in on real files; after every step the file is re-read (whole and per variable) and compared with a reference file model "
            "field by field (values, dtype kind, dims, labels, three levels of metadata); written objects must be unchanged.",
            "netCDF half is RELATIVE TO THE STAND-IN mc/standin/netCDF4 (netCDF4 is not installable here); RefFile model in mc/props/c19.py; datetime axes not covered",
            "exhaustive enumeration (JSON) + explicit-state BFS over write histories executed on the implementation through a model of the netCDF4 API, re-read after every step"),
    "C20": ("DESIGN.md 5/C20",
            "Reads: every file x variable x index menu x mode x 10 spellings compared with take() on the fully loaded array; writes: BFS over on-disk "
            "assignment / unlimited-dimension append programs compared with put() / concatenate on the in-memory copy after every step (through the handle "
            "and after reopening); multi-file reads compared with stack_ds / concatenate_ds of the single reads.",
            "RELATIVE TO THE STAND-IN's orthogonal indexing and unlimited-dimension growth; in-memory take()/put() are the reference (C01-C03)",
            "exhaustive differential enumeration of on-disk vs in-memory reads + explicit-state BFS over on-disk write histories"),
})

PENDING = ["C01", "C03", "C05", "C06", "C07", "C08", "C09", "C10", "C11", "C12", "C13", "C14", "C15", "C16", "C17", "C18", "C19", "C20"]


def main():
    checks = []
    for pid in sorted(CHECKS):
        ref, text, note, tech = CHECKS[pid]
        checks.append({
            "property_id": pid,
            "quick_cmd": "cd /verif && /venv/bin/python -m mc.check {} --tier quick".format(pid),
            "thorough_cmd": "cd /verif && /venv/bin/python -m mc.check {} --tier thorough".format(pid),
            "evidence_file": "/verif/evidence/{}.json".format(pid),
            "replay_cmd_template": "cd /verif && /venv/bin/python -m mc.check {} --replay {{path}}".format(pid),
            "engine": "mc",
            "level_claimed": {"category": "model_checking", "text": text, "design_ref": ref},
            "level_note": note,
            "technique": tech,
        })
    na = [{"property_id": p, "reason": "check not built yet in this session (work in progress; the design in DESIGN.md section 5 applies)"}
          for p in PENDING if p not in CHECKS]
    man = {
        "version": 1,
        "setup_cmd": "cd /verif && /venv/bin/python -m mc.selftest",
        "hooks": {"guard": "DIMARRAY_VERIF",
                  "enable": "no source hooks: checks import dimarray from /repo's working tree in fresh worker processes; "
                            "DIMARRAY_VERIF=1 only switches on harness-side monitors (constructor wrapper installed from mc/monitor.py)",
                  "baseline_off_cmd": "cd /repo && /venv/bin/python -m pytest -ra -q -p no:cacheprovider --timeout=900 --continue-on-collection-errors",
                  "source_commits": [], "add_only": True},
        "engines": [{"name": "mc", "path": "/verif/mc", "serves_properties": sorted(CHECKS),
                     "kind_free_text": "hand-written explicit-state explorer in Python: bounded-exhaustive product sweeps (E1) and "
                                       "breadth-first search over operation histories (E2) executed on the real dimarray code in "
                                       "lock-step with a pure-Python reference model; 16 worker processes"}],
        "checks": checks,
        "not_applicable": na,
        "notes": "All checks run /venv/bin/python on /repo's current working tree (override with DIMARRAY_VERIF_REPO for scratch copies). "
                 "known_findings.jsonl lists fixed / known defects; replays are written to /verif/replays/.",
    }
    path = os.path.join(VERIF, "MANIFEST.json")
    json.dump(man, open(path, "w"), indent=1)
    r = subprocess.run(["python3-vt", "-c",
                        "import json,jsonschema;jsonschema.validate(json.load(open('%s')), json.load(open('/root/.vp/MANIFEST.schema.json')));print('manifest valid, %d checks, %d n/a')" % (path, len(checks), len(na))])
    return r.returncode


if __name__ == "__main__":
    sys.exit(main())
