"""developer tool: run a property's sweep serially-in-pool and group violations by (klass, slice shape) signature"""
import sys, os, json, collections, re
from concurrent.futures import ProcessPoolExecutor
from mc import engine

def work(args):
    pid, sh, tier = args
    mod = engine._load(pid)
    out = []
    for case in mod.cases(sh, tier):
        r = engine.safe_check(mod, case)
        if not r["ok"]:
            out.append((case, r["detail"], r["klass"]))
    return out

if __name__ == "__main__":
    pid = sys.argv[1]; tier = sys.argv[2] if len(sys.argv) > 2 else "quick"
    mod = engine._load(pid)
    sig = getattr(mod, "triage_sig", None)
    groups = collections.defaultdict(list)
    with ProcessPoolExecutor(16) as ex:
        for res in ex.map(work, [(pid, sh, tier) for sh in mod.shards(tier)], chunksize=4):
            for case, detail, klass in res:
                k = sig(case, detail, klass) if sig else (klass, re.sub(r"[-0-9.]+", "#", detail)[:80])
                groups[k].append((case, detail))
    print("groups:", len(groups), "violations:", sum(len(v) for v in groups.values()))
    for k, v in sorted(groups.items(), key=lambda kv: -len(kv[1]))[:int(os.environ.get("TRIAGE_GROUPS", "14"))]:
        print(len(v), k)
        for case, detail in v[:int(sys.argv[3]) if len(sys.argv) > 3 else 1]:
            print("     ", json.dumps(case, default=engine._jdefault)[:260]); print("     ", detail[:260])
