#!/usr/bin/env python3-vt
import json, sys, glob, jsonschema
schema = json.load(open('/root/.vp/EVIDENCE.schema.json'))
bad = 0
for f in sorted(glob.glob('/verif/evidence/*.json')):
    try:
        jsonschema.validate(json.load(open(f)), schema); print('valid', f)
    except Exception as e:
        bad += 1; print('INVALID', f, str(e)[:300])
sys.exit(1 if bad else 0)
