#!/venv/bin/python
"""Run checks against a PROPERTY-PRESERVING change (sixth wave): every check must stay silent.

usage: tools/neutral_test.py --patch P.diff [--checks C01,C02 | all] [--tier quick] [--save NAME --kind TEXT]

Steps: fresh worktree of /repo HEAD -> apply patch -> every test passing at HEAD must still pass -> each listed check is run with
DIMARRAY_VERIF_REPO=<worktree> and must exit 0 without a VIOLATION line -> worktree removed.
With --save the change is stored under /verif/neutral/NAME/ (patch.diff, meta.json).
"""
import argparse, json, os, shutil, subprocess, sys, tempfile, time
sys.path.insert(0, os.path.dirname(os.path.dirname(os.path.abspath(__file__))))
from tools.seed_test import sh, head_pass, run_tests, VERIF

ALL = ["C%02d" % i for i in range(1, 21)]


def main():
    ap = argparse.ArgumentParser()
    ap.add_argument("--patch", required=True)
    ap.add_argument("--checks", default="all")
    ap.add_argument("--tier", default="quick")
    ap.add_argument("--save", default=None)
    ap.add_argument("--kind", default="")
    a = ap.parse_args()
    checks = ALL if a.checks == "all" else a.checks.split(",")
    sha = sh("git -C /repo rev-parse --short HEAD").stdout.strip()
    wt = tempfile.mkdtemp(prefix="nt-")
    os.rmdir(wt)
    out = {"repo_head": sha, "checks": {}, "tier": a.tier, "patch": a.patch}
    try:
        r = sh("git -C /repo worktree add --detach %s HEAD" % wt)
        assert r.returncode == 0, r.stderr
        shutil.copy("/repo/dimarray/_version.py", wt + "/dimarray/_version.py")
        for p in a.patch.split(","):        # several changes that do not overlap can be tried together (one run of the checks for all)
            ap_ = sh("git -C %s apply %s" % (wt, os.path.abspath(p)))
            out["patch_applies"] = ap_.returncode == 0
            if ap_.returncode != 0:
                out["patch_error"] = p + ": " + ap_.stderr[-400:]
                print(json.dumps(out, indent=1)); return 2
        out["files"] = sh("git -C %s diff --stat" % wt).stdout.strip().splitlines()[-1:]
        hp = head_pass(sha)
        now = run_tests(wt)
        out["tests_head_passing"] = len(hp)
        out["tests_broken_by_change"] = sorted(hp - now)[:10]
        outdir = tempfile.mkdtemp(prefix="nt-out-")
        for c in checks:
            t0 = time.time()
            env2 = dict(os.environ, DIMARRAY_VERIF_REPO=wt, VERIF_OUT=outdir)
            r = sh(["/venv/bin/python", "-m", "mc.check", c, "--tier", a.tier], cwd=VERIF, env=env2)
            lines = r.stdout.splitlines()
            viol = [l for l in lines if l.startswith("VIOLATION")]
            first = ""
            for i, l in enumerate(lines):
                if l.startswith("VIOLATION") and i + 1 < len(lines):
                    first = lines[i + 1].strip()[:400]; break
            out["checks"][c] = {"exit": r.returncode, "violation_lines": len(viol), "first": first,
                                "summary": lines[-1][:200] if lines else r.stderr[-300:], "wall_s": round(time.time() - t0, 1)}
            print("  %s exit=%d viol=%d %s" % (c, r.returncode, len(viol), first[:200]), file=sys.stderr, flush=True)
        shutil.rmtree(outdir, ignore_errors=True)
    finally:
        sh("git -C /repo worktree remove --force %s" % wt)
        shutil.rmtree(wt, ignore_errors=True)
    out["alarms"] = [c for c, v in out["checks"].items() if v["exit"] != 0 or v["violation_lines"]]
    out["silent"] = not out["alarms"] and not out["tests_broken_by_change"]
    print(json.dumps(out, indent=1))
    if a.save:
        d = os.path.join(VERIF, "neutral", a.save)
        os.makedirs(d, exist_ok=True)
        for i, p in enumerate(a.patch.split(",")):
            shutil.copy(p, d + "/patch%s.diff" % ("" if i == 0 else i + 1))
        json.dump({"kind": a.kind, "origin": "independent sub-agent given the twenty property texts and asked for a change preserving all of them",
                   "confirmed": {"repo_head": sha, "tests_passing_at_head": out["tests_head_passing"],
                                 "tests_broken_by_change": out["tests_broken_by_change"]},
                   "checks_run": out["checks"], "alarms": out["alarms"]}, open(d + "/meta.json", "w"), indent=1)
    return 0 if out["silent"] else 1


if __name__ == "__main__":
    sys.exit(main())
