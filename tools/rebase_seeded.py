#!/venv/bin/python
"""Re-base the seeded changes whose patch no longer applies to /repo HEAD (the repository moved on: `fix:` commits touch the same lines).

For every /verif/seeded/<id>/patch.diff that `git apply --check` refuses on a scratch worktree of HEAD, try in turn
    git apply -C1 --recount        (less context)
    git apply --3way               (three-way merge against the blobs the patch was made from)
and, when one of them applies cleanly (no conflict markers), rewrite patch.diff from `git diff` of the worktree (the old patch is kept as
patch.orig.diff the first time).  Prints one line per seed; seeds that still do not apply are listed at the end for manual re-basing.
Nothing is committed to /repo; the worktree lives under /tmp and is removed.   usage: tools/rebase_seeded.py [ids...]"""
import os, sys, subprocess, glob, shutil, tempfile

VERIF = os.path.dirname(os.path.dirname(os.path.abspath(__file__)))


def sh(cmd, **kw):
    return subprocess.run(cmd, shell=isinstance(cmd, str), capture_output=True, text=True, **kw)


def main():
    ids = sys.argv[1:] or sorted(os.path.basename(d) for d in glob.glob(os.path.join(VERIF, "seeded", "C*")))
    wt = tempfile.mkdtemp(prefix="rb-")
    os.rmdir(wt)
    assert sh("git -C /repo worktree add --detach %s HEAD" % wt).returncode == 0
    failed = []
    try:
        for i in ids:
            p = os.path.join(VERIF, "seeded", i, "patch.diff")
            if not os.path.exists(p):
                continue
            sh("git -C %s reset -q --hard HEAD && git -C %s clean -fdq" % (wt, wt))
            if sh("git -C %s apply --check %s" % (wt, p)).returncode == 0:
                print(i, "applies")
                continue
            done = None
            for how in ("-C1 --recount", "--3way", "patch -F3"):
                sh("git -C %s reset -q --hard HEAD && git -C %s clean -fdq" % (wt, wt))
                if how.startswith("patch"):
                    r = sh("cd %s && patch -p1 -F3 -N --no-backup-if-mismatch -r /dev/null < %s" % (wt, p))
                else:
                    r = sh("git -C %s apply %s %s" % (wt, how, p))
                diff = sh("git -C %s diff HEAD -- dimarray" % wt).stdout
                if r.returncode == 0 and diff.strip() and "<<<<<<<" not in diff:
                    done = (how, diff)
                    break
            if done:
                if not os.path.exists(p.replace("patch.diff", "patch.orig.diff")):
                    shutil.copy(p, p.replace("patch.diff", "patch.orig.diff"))
                open(p, "w").write(done[1])
                print(i, "re-based with git apply", done[0])
            else:
                failed.append(i)
                print(i, "STILL FAILS:", r.stderr.strip().splitlines()[-1][:150] if r.stderr.strip() else "conflict")
    finally:
        sh("git -C /repo worktree remove --force %s" % wt)
        shutil.rmtree(wt, ignore_errors=True)
    print("manual:", " ".join(failed))


if __name__ == "__main__":
    main()
