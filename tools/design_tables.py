#!/venv/bin/python
"""Regenerate the 'as-built numbers' table of DESIGN.md (between the markers <!-- NUMBERS:BEGIN --> / <!-- NUMBERS:END -->)
from evidence files.   usage: tools/design_tables.py [quick-evidence-dir] [thorough-evidence-dir]

Quick numbers come from /verif/evidence (the committed evidence, written by the quick commands against /repo); thorough numbers from the
directory given (evidence written by a `vp run` of tools/run_all.sh thorough), when present."""
import json, os, sys, glob

VERIF = os.path.dirname(os.path.dirname(os.path.abspath(__file__)))


def load(d):
    out = {}
    for f in sorted(glob.glob(os.path.join(d, "C*.json"))):
        e = json.load(open(f))
        out[e["property_id"]] = e
    return out


def row(e):
    if not e:
        return "- | - | - | -"
    c = e["coverage"]
    depth = ""
    for b in c.get("bfs", []) or []:
        depth += " {}:d{}{}".format(b.get("space"), b.get("completed_depth"), "(capped)" if b.get("capped") else "")
    return "{} | {} | {} | {:.0f}{}".format(c.get("states"), c.get("transitions"), c.get("distinct_nontrivial"), e.get("wall_s", 0), (" /" + depth) if depth else "")


def main():
    q = load(sys.argv[1] if len(sys.argv) > 1 else os.path.join(VERIF, "evidence"))
    t = load(sys.argv[2]) if len(sys.argv) > 2 else {}
    lines = ["| property | quick: states | transitions (each replayed on the implementation) | non-trivial | wall s / BFS depth completed | thorough: states | transitions | non-trivial | wall s / BFS depth |",
             "|---|---|---|---|---|---|---|---|---|"]
    for pid in sorted(q):
        lines.append("| {} | {} | {} |".format(pid, row(q[pid]), row(t.get(pid))))
    block = "<!-- NUMBERS:BEGIN -->\n" + "\n".join(lines) + "\n<!-- NUMBERS:END -->"
    p = os.path.join(VERIF, "DESIGN.md")
    s = open(p).read()
    # section 6: defects repaired, from known_findings.jsonl
    rows = ["| property | commit | what failed | witness |", "|---|---|---|---|"]
    for line in open(os.path.join(VERIF, "known_findings.jsonl")):
        if line.strip():
            r = json.loads(line)
            if r.get("status") == "fixed":
                esc = lambda t: str(t).replace("|", "\\|").replace("\n", " ")
                rows.append("| {} | `{}` | {} | {} |".format(r["property"], r["commit"], esc(r.get("what", ""))[:260], esc(r.get("witness", ""))[:220]))
    fblock = "<!-- FINDINGS:BEGIN -->\n" + "\n".join(rows) + "\n<!-- FINDINGS:END -->"
    if "<!-- FINDINGS:BEGIN -->" in s:
        a = s.index("<!-- FINDINGS:BEGIN -->")
        b = s.index("<!-- FINDINGS:END -->") + len("<!-- FINDINGS:END -->")
        s = s[:a] + fblock + s[b:]
    # known (recorded, not repaired) findings
    krows = ["| property | classifier | what fails | witness |", "|---|---|---|---|"]
    for line in open(os.path.join(VERIF, "known_findings.jsonl")):
        if line.strip():
            r = json.loads(line)
            if r.get("status") == "known":
                esc = lambda t: str(t).replace("|", "\\|").replace("\n", " ")
                krows.append("| {} | `{}` | {} | {} |".format(r["property"], r["classifier"], esc(r.get("what", "")), esc(r.get("witness", ""))))
    kblock = "<!-- KNOWN:BEGIN -->\n" + "\n".join(krows) + "\n<!-- KNOWN:END -->"
    if "<!-- KNOWN:BEGIN -->" in s:
        a = s.index("<!-- KNOWN:BEGIN -->")
        b = s.index("<!-- KNOWN:END -->") + len("<!-- KNOWN:END -->")
        s = s[:a] + kblock + s[b:]
    if "<!-- NUMBERS:BEGIN -->" in s:
        a = s.index("<!-- NUMBERS:BEGIN -->")
        b = s.index("<!-- NUMBERS:END -->") + len("<!-- NUMBERS:END -->")
        s = s[:a] + block + s[b:]
        open(p, "w").write(s)
    else:
        print(block)


if __name__ == "__main__":
    main()
