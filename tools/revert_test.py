#!/venv/bin/python
"""A `fixed` entry of known_findings.jsonl suppresses nothing: if the defect returns, the check must report it again.
For every fixed entry whose commit still reverts cleanly on /repo HEAD: scratch worktree of HEAD, `git revert --no-commit <commit>`,
the quick check of the entry's property is run against the worktree and has to exit 1 with a VIOLATION line.  Worktrees are removed.
Writes seeded/REVERTS.md.    usage: tools/revert_test.py [-j 4] [--max N]
"""
import json, os, shutil, subprocess, sys, tempfile, time
from concurrent.futures import ThreadPoolExecutor

VERIF = os.path.dirname(os.path.dirname(os.path.abspath(__file__)))
# repairs whose case a LATER repair covers as well: reverting them alone leaves the property intact (C13's `set_on_axes`
# histories - the case of that repair - all pass on the reverted tree)
SUPERSEDED = {"ac2984c": "the later repair `4efd189` (a deep copy of a Dataset's axes is a plain Axes) covers the same case, so this revert leaves the property intact"}


def sh(cmd, **kw):
    return subprocess.run(cmd, shell=isinstance(cmd, str), capture_output=True, text=True, **kw)


def one(item):
    commit, props, what = item
    wt = tempfile.mkdtemp(prefix="rv-")
    os.rmdir(wt)
    out = {"commit": commit, "props": props, "what": what, "checks": {}}
    try:
        r = sh("git -C /repo worktree add --detach %s HEAD" % wt)
        assert r.returncode == 0, r.stderr
        shutil.copy("/repo/dimarray/_version.py", wt + "/dimarray/_version.py")
        r = sh("git -C %s revert --no-commit %s" % (wt, commit))
        out["reverts"] = r.returncode == 0
        if r.returncode != 0:
            return out
        outdir = tempfile.mkdtemp(prefix="rv-out-")
        for p in props:
            t0 = time.time()
            env = dict(os.environ, DIMARRAY_VERIF_REPO=wt, VERIF_OUT=outdir)
            r = sh(["/venv/bin/python", "-m", "mc.check", p, "--tier", "quick"], cwd=VERIF, env=env)
            lines = r.stdout.splitlines()
            first = ""
            for i, l in enumerate(lines):
                if l.startswith("VIOLATION") and i + 1 < len(lines):
                    first = lines[i + 1].strip()[:160]; break
            out["checks"][p] = {"exit": r.returncode, "viol": sum(1 for l in lines if l.startswith("VIOLATION")), "first": first,
                                "wall_s": round(time.time() - t0, 1)}
        shutil.rmtree(outdir, ignore_errors=True)
    finally:
        sh("git -C /repo worktree remove --force %s" % wt)
        shutil.rmtree(wt, ignore_errors=True)
    print(commit, out.get("reverts"), {p: (v["exit"], v["viol"]) for p, v in out["checks"].items()}, flush=True)
    return out


def main():
    jobs = int(sys.argv[sys.argv.index("-j") + 1]) if "-j" in sys.argv else 4
    mx = int(sys.argv[sys.argv.index("--max") + 1]) if "--max" in sys.argv else None
    entries = [json.loads(l) for l in open(os.path.join(VERIF, "known_findings.jsonl")) if l.strip()]
    by = {}
    for e in entries:
        if e.get("status") == "fixed":
            c = by.setdefault(e["commit"], [[], e.get("what", "")])
            if e["property"] not in c[0]:
                c[0].append(e["property"])
    order = sh("git -C /repo log --format=%h").stdout.split()
    pos = dict((h[:7], i) for i, h in enumerate(order))
    items = sorted(((c, v[0], v[1]) for c, v in by.items()), key=lambda it: pos.get(it[0][:7], 10 ** 6))
    if mx:
        items = items[:mx]
    with ThreadPoolExecutor(jobs) as ex:
        res = list(ex.map(one, items))
    head = sh("git -C /repo rev-parse --short HEAD").stdout.strip()
    lines = ["# Repairs reverted one at a time on /repo HEAD {}: does the check report the defect again?".format(head), "",
             "| commit | property | reverts cleanly | check exit / VIOLATION lines | first report | what the repair was about |", "|---|---|---|---|---|---|"]
    n = caught = conflicts = 0
    for o in res:
        if not o.get("reverts"):
            conflicts += 1
            lines.append("| `{}` | {} | no (later repairs touch the same lines) | - | - | {} |".format(o["commit"], ",".join(o["props"]), o["what"][:110].replace("|", "/")))
            continue
        for p, v in o["checks"].items():
            if o["commit"] in SUPERSEDED and v["exit"] == 0:
                lines.append("| `{}` | {} | yes | 0 / 0 - the defect does NOT return: {} | (nothing to report) | {} |".format(
                    o["commit"], p, SUPERSEDED[o["commit"]], o["what"][:110].replace("|", "/")))
                continue
            n += 1
            okk = v["exit"] == 1 and v["viol"] > 0
            caught += okk
            lines.append("| `{}` | {} | yes | {} / {}{} | {} | {} |".format(o["commit"], p, v["exit"], v["viol"], "" if okk else " **NOT REPORTED**",
                                                                      v["first"].replace("|", "/"), o["what"][:110].replace("|", "/")))
    lines += ["", "{} (commit, property) pairs reverted cleanly, {} reported again by the quick check of the property; {} commits do not revert cleanly any more.".format(n, caught, conflicts)]
    open(os.path.join(VERIF, "seeded", "REVERTS.md"), "w").write("\n".join(lines) + "\n")
    print(lines[-1])
    return 0 if n == caught else 1


if __name__ == "__main__":
    sys.exit(main())
