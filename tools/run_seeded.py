#!/venv/bin/python
"""Re-run every seeded change under /verif/seeded against the CURRENT /repo HEAD and rewrite seeded/RESULTS.md.

For each seeded/<id>/ : fresh scratch worktree of /repo HEAD -> demo passes -> patch applies -> the tests passing at HEAD still pass
-> demo fails -> the quick check of the broken property (plus any extra check named in meta.json 'also_checks') exits 1 with a
VIOLATION line.  Worktrees are removed afterwards.   usage: tools/run_seeded.py [-j 4] [ids...]
"""
import json, os, subprocess, sys, glob, tempfile
from concurrent.futures import ThreadPoolExecutor

VERIF = os.path.dirname(os.path.dirname(os.path.abspath(__file__)))


def one(d):
    sid = os.path.basename(d)
    meta = json.load(open(os.path.join(d, "meta.json")))
    checks = [meta["breaks_property"]] + [c for c in meta.get("caught_by", []) if c != meta["breaks_property"]]
    r = subprocess.run(["/venv/bin/python", os.path.join(VERIF, "tools", "seed_test.py"), "--prop", meta["breaks_property"],
                        "--patch", os.path.join(d, "patch.diff"), "--demo", os.path.join(d, "demo.py"), "--checks", ",".join(checks)],
                       capture_output=True, text=True, cwd=VERIF)
    try:
        out = json.loads(r.stdout[r.stdout.index("{"):])
    except Exception:
        out = {"error": (r.stdout + r.stderr)[-400:]}
    return sid, meta, out


def main():
    args = [a for a in sys.argv[1:] if not a.startswith("-")]
    jobs = 4
    if "-j" in sys.argv:
        jobs = int(sys.argv[sys.argv.index("-j") + 1])
        args = [a for a in args if a != str(jobs)]
    dirs = sorted(d for d in glob.glob(os.path.join(VERIF, "seeded", "*")) if os.path.isdir(d) and (not args or os.path.basename(d) in args))
    with ThreadPoolExecutor(jobs) as ex:
        results = list(ex.map(one, dirs))
    head = subprocess.run("git -C /repo rev-parse --short HEAD", shell=True, capture_output=True, text=True).stdout.strip()
    lines = ["# Seeded changes re-run against /repo HEAD {}".format(head), "",
             "| id | property | needs to manifest | patch applies | tests kept | demo clean/changed | caught by (quick) | first report |", "|---|---|---|---|---|---|---|---|"]
    bad = 0
    for sid, meta, out in results:
        caught = out.get("caught_by", []) or []
        if meta.get("neutralised_by"):
            lines.append("| {} | {} | {} | {} | - | {}/{} | (neutralised by a later repair of /repo: no longer a property-breaking change) | {} |".format(
                sid, meta["breaks_property"], meta.get("needs_to_manifest", "")[:120], out.get("patch_applies"), out.get("demo_clean_exit"),
                out.get("demo_changed_exit"), meta["neutralised_by"][:140].replace("|", "/")))
            print(sid, "NEUTRALISED", out.get("patch_applies"), out.get("valid_seed"))
            continue
        okk = out.get("valid_seed") and meta["breaks_property"] in caught
        bad += 0 if okk else 1
        first = ""
        for c in caught[:1]:
            first = out["checks"][c]["first"][:140].replace("|", "/")
        lines.append("| {} | {} | {} | {} | {} | {}/{} | {} | {} |".format(
            sid, meta["breaks_property"], meta.get("needs_to_manifest", "")[:120].replace("|", "/"), out.get("patch_applies"),
            "yes" if not out.get("tests_broken_by_change") else "NO " + str(out.get("tests_broken_by_change"))[:60],
            out.get("demo_clean_exit"), out.get("demo_changed_exit"), ",".join(caught) or "MISSED", first))
        print(sid, "OK" if okk else "PROBLEM", out.get("patch_applies"), out.get("valid_seed"), caught, out.get("error", ""))
    path = os.path.join(VERIF, "seeded", "RESULTS.md")
    if args and os.path.exists(path):
        # a partial re-run: replace the rows of the ids given in the existing table, keep the others
        new = dict((l.split("|")[1].strip(), l) for l in lines[4:])
        old = open(path).read().splitlines()
        rows = [new.pop(l.split("|")[1].strip(), l) for l in old[4:] if l.startswith("| ")]
        rows = sorted(rows + list(new.values()), key=lambda l: l.split("|")[1].strip())
        lines = [lines[0] + " (rows re-run separately: {})".format(", ".join(args))] + lines[1:4] + rows
        results = rows
        bad = sum(1 for l in rows if "MISSED" in l or "| NO " in l or "| False |" in l and "neutralised" not in l)
    lines += ["", "{} seeded changes, {} not (valid and caught by the check of their property).".format(len(results), bad)]
    open(path, "w").write("\n".join(lines) + "\n")
    return 1 if bad else 0


if __name__ == "__main__":
    sys.exit(main())
