#!/bin/bash
# run every registered check at the given tier (default quick) and print one line per check
tier=${1:-quick}
cd "$(dirname "$0")/.."
for p in ${PROPS:-C01 C02 C03 C04 C05 C06 C07 C08 C09 C10 C11 C12 C13 C14 C15 C16 C17 C18 C19 C20}; do
  s=$(date +%s)
  out=$(/venv/bin/python -m mc.check $p --tier $tier 2>&1); rc=$?
  e=$(date +%s)
  echo "$p rc=$rc $((e-s))s $(echo "$out" | grep -c '^VIOLATION') violation-lines :: $(echo "$out" | grep "^$p tier" | cut -c1-120)"
done
