#!/venv/bin/python
"""print the prompt for an independent sub-agent that writes PROPERTY-PRESERVING changes (the sixth wave: the checks must stay silent on
them).  The agent gets the text of the twenty properties and its own worktree, nothing from /verif's machinery.
usage: mk_neutral_prompt.py <area text> <files> <worktree> <n>"""
import json, sys, textwrap
area, files, wt, n = sys.argv[1], sys.argv[2], sys.argv[3], int(sys.argv[4])
props = [json.loads(l) for l in open('/verif/properties.jsonl') if l.strip()]
ptxt = "\n\n".join("{} - {}\nStatement: {}\nScope: {}".format(p['id'], p['title'], p['statement'], p['quantifier']['text']) for p in props)
print(f"""You are a maintainer of the Python library perrette/dimarray (labelled N-d arrays on NumPy). A list of twenty semantic properties of the library is given below. Your job is to write {n} REALISTIC CHANGES to the library that a maintainer could plausibly commit and that PRESERVE EVERY ONE of the twenty properties - they will be used to test that a property checker raises no false alarm on code where the properties hold. Your area: {area} (files: {files}).

Work ONLY inside the git worktree {wt} (a checkout of the library at its current HEAD): read and edit the source there. Never read or modify anything under /repo or /verif, do not commit anything.

Each change must be of a DIFFERENT kind; choose among:
 (a) a refactoring with identical behaviour that is not trivial: restructure a function's control flow, replace an algorithm by an equivalent one (e.g. a Python loop by a vectorised NumPy expression or the reverse, np.searchsorted instead of a scan, a dict look-up instead of a list scan), extract / inline a helper, reorder independent steps, change which intermediate objects are created (extra or fewer copies where the result is a new object anyway);
 (b) an optimisation: a fast path for a common case (already aligned axes, full slice, identical axis objects, scalar index), a cache that is correctly invalidated, lazy evaluation;
 (c) a change of behaviour that NONE of the twenty statements constrains: wording of error messages and warnings, repr / str output, docstrings, the exception raised for input OUTSIDE every stated scope, a new optional keyword with a default that keeps the old behaviour, stricter or laxer validation of input outside the scopes, result details the statements leave open (read them closely: where a statement names an exception class, a dtype, an order of labels, an identity of objects, "unchanged", that IS constrained; where it says nothing, it is not);
 (d) a different internal representation (e.g. how an Axis stores its labels or tolerance, how metadata is stored, how a Dataset keeps its axes) behind the same public interface.
At least one change must be of kind (c) or (d). Make the changes as bold as you can while still being SURE the properties hold: a one-line rename is useless, a change that quietly alters a promised result is harmful. For every change, walk through the twenty statements and convince yourself that each still holds for all inputs in its scope - if in doubt, choose another change.

For each change i = 1..{n}: start from a clean worktree (`git -C {wt} checkout -- . `), edit, run the library's test suite `cd {wt} && PYTHONPATH={wt} /venv/bin/python -m pytest -q -p no:cacheprovider --continue-on-collection-errors > test_out.txt 2>&1; tail -3 test_out.txt` before (once, on the clean tree) and after (the set of failing tests must not grow - some tests fail on the clean tree already, netCDF4 is not installed), probe the behaviour with a few small scripts of your own (`cd {wt} && PYTHONPATH={wt} /venv/bin/python script.py > out.txt 2>&1`), then save it as `git -C {wt} diff > {wt}/neutral<i>.diff` and reset the tree. Every shell command in this sandbox prints a long, harmless conda error about /root/.condarc before its real output - ignore it, do not try to fix it; redirect output to files and read those.
Environment: sandbox without network. /venv/bin/python is Python 3.12 with NumPy 2.5; netCDF4, pandas and matplotlib are NOT installed (for the netCDF module you can only reason from the source; there is no netCDF4 to run it).

Final report (plain text): for each neutral<i>.diff its kind, what it changes, which public behaviour (if any) differs from HEAD, and the argument why all twenty properties still hold (name the properties that come closest and why they are not touched).

THE TWENTY PROPERTIES

{ptxt}
""")
