#!/venv/bin/python
"""print the prompt for an independent DEFECT-HUNTING sub-agent: find inputs / histories for which the CURRENT library violates one property
(property text only, nothing from /verif's machinery).   usage: mk_hunt_prompt.py C07 /tmp/h-C07 ["extra environment text"]"""
import json, sys
pid, wt = sys.argv[1], sys.argv[2]
extra = sys.argv[3] if len(sys.argv) > 3 else ""
p = [json.loads(l) for l in open('/verif/properties.jsonl') if json.loads(l)['id'] == pid][0]
print(f"""You are testing the Python library perrette/dimarray (labelled N-d arrays on NumPy) against ONE stated property. Your job is to find GENUINE DEFECTS: concrete inputs, argument combinations or short sequences of public calls, inside the stated scope, for which the library AS IT IS violates the property.

Work ONLY inside the git worktree {wt} (a checkout of the library at its current HEAD): read its source there, write your probe scripts there. Never modify the library source, never read or modify anything under /repo or /verif, do not commit anything.

PROPERTY {pid}: {p['title']}
Statement: {p['statement']}
Scope (what inputs it quantifies over): {p['quantifier']['text']}
Code the property is anchored in: {', '.join(p['anchors']['files'])}

How to work: read the anchored code and the helpers it calls, looking for places where the stated behaviour could fail - boundary cases (empty and size-1 axes, 0-d arrays, negative positions, first / last label), label kinds and orders (int / float / str, increasing / decreasing / shuffled, large magnitudes, mixed int-float), dtypes (float32, int32, bool, object), NaN / inf, every spelling and keyword of the same operation, less used entry points, options (dimarray.rcParams / set_option), and SEQUENCES (an array or Axis object used twice, edited in place between two calls, results that share objects with operands, Dataset variables, views). Write small probe scripts that compare the library's answer with an independent oracle computed with plain NumPy / Python from the statement, and run many cases. Stay strictly inside the scope: behaviour the statement does not promise (or input outside the stated quantification) is not a defect, and an exception is only a defect where the statement promises a result.

Run scripts as `cd {wt} && PYTHONPATH={wt} /venv/bin/python yourscript.py > out.txt 2>&1` and read out.txt (every shell command in this sandbox prints a long, harmless conda error about /root/.condarc before its real output - ignore it, do not try to fix it).
Environment: sandbox without network. /venv/bin/python is Python 3.12 with NumPy 2.5; netCDF4, pandas and matplotlib are NOT installed. {extra}
Build DimArrays like: `from dimarray import DimArray, Axis, Dataset; a = DimArray(np.arange(6.).reshape(2,3), axes=[Axis(np.array([10,20]), 'x'), Axis(np.array(['a','b','c'], dtype=object), 'y')])`.

What to deliver: for every distinct defect found, a minimal stand-alone script {wt}/defectN.py (N = 1, 2, ...) that prints dimarray.__file__, shows the call(s), what the library returns, what the statement promises, and ends with a failing assert; plus, in your final report (plain text), for each defect: the clause of the statement it violates, why the input is inside the scope, the root cause in the source (file, function, line) and a suggested minimal fix. Rank them by how clear-cut they are. If after a thorough search you find none, say so and list what you covered. Spend your effort on finding REAL violations, not on volume: a doubtful case should be reported as doubtful.""")
