#!/bin/bash
# usage: tools/seed_wave.sh C03 /tmp/w2-C03 c d   -> tests patch1/demo1 as C03-c and patch2/demo2 as C03-d (saved only when valid), prints a summary
p=$1; dir=$2; n1=$3; n2=$4
cd "$(dirname "$0")/.."
for i in 1 2; do
  nm=$([ $i = 1 ] && echo $n1 || echo $n2)
  /venv/bin/python tools/seed_test.py --prop $p --patch $dir/patch$i.diff --demo $dir/demo$i.py --save $p-$nm ${5:+--checks $5} > /tmp/seedw-$p-$nm.json 2>&1 &
done
wait
for nm in $n1 $n2; do
/venv/bin/python - /tmp/seedw-$p-$nm.json $p-$nm <<'PY'
import json,sys
s=open(sys.argv[1]).read()
try:
    o=json.loads(s[s.index('{'):])
except Exception:
    print(sys.argv[2], "UNPARSABLE", s[-500:]); sys.exit()
print(sys.argv[2], {k:o.get(k) for k in ['valid_seed','demo_clean_exit','demo_changed_exit','patch_applies','tests_broken_by_change','caught_by']})
for c,v in o.get('checks',{}).items(): print('   ', c, v.get('exit'), v.get('first','')[:300])
PY
done
