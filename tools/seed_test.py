#!/venv/bin/python
"""Confirm a seeded change and run checks against it, in a scratch worktree of /repo's HEAD (removed afterwards).

usage: tools/seed_test.py --prop C02 --patch P.diff --demo demo.py [--checks C02,C01] [--tier quick] [--save NAME] [--needs TEXT]

Steps: fresh worktree of /repo HEAD -> demo must pass -> apply patch -> every test passing at HEAD must still pass
-> demo must fail -> each listed check must exit 1 with a VIOLATION line -> worktree removed.
With --save the change is stored under /verif/seeded/NAME/ (patch.diff, demo.py, meta.json).
"""
import argparse, json, os, shutil, subprocess, sys, tempfile, time
sys.path.insert(0, os.path.dirname(os.path.dirname(os.path.abspath(__file__))))
from tools import baseline

VERIF = "/verif"


def sh(cmd, **kw):
    return subprocess.run(cmd, shell=isinstance(cmd, str), capture_output=True, text=True, **kw)


def head_pass(sha):
    cache = "/tmp/dimarray-headpass-%s.json" % sha
    if os.path.exists(cache):
        return set(json.load(open(cache)))
    wt = tempfile.mkdtemp(prefix="mt-head-")
    os.rmdir(wt)
    sh("git -C /repo worktree add --detach %s HEAD" % wt)
    shutil.copy("/repo/dimarray/_version.py", wt + "/dimarray/_version.py")
    passed = run_tests(wt)
    sh("git -C /repo worktree remove --force %s" % wt)
    json.dump(sorted(passed), open(cache, "w"))
    return passed


def run_tests(wt):
    import xml.etree.ElementTree as ET
    xml = os.path.join(tempfile.mkdtemp(prefix="junit-"), "j.xml")
    env = dict(os.environ, PYTHONPATH=wt)
    env.pop("DIMARRAY_VERIF", None)
    subprocess.run(["/venv/bin/python", "-m", "pytest", "-q", "-p", "no:cacheprovider", "--timeout=900",
                    "--continue-on-collection-errors", "--junitxml=" + xml], cwd=wt, env=env,
                   stdout=subprocess.DEVNULL, stderr=subprocess.DEVNULL)
    passed = set()
    for tc in ET.parse(xml).iter("testcase"):
        if not any(ch.tag in ("failure", "error", "skipped") for ch in tc):
            passed.add("{}::{}".format(tc.get("classname"), tc.get("name")))
    shutil.rmtree(os.path.dirname(xml))
    return passed


def main():
    ap = argparse.ArgumentParser()
    ap.add_argument("--prop", required=True)
    ap.add_argument("--patch", required=True)
    ap.add_argument("--demo", required=True)
    ap.add_argument("--checks", default=None)
    ap.add_argument("--tier", default="quick")
    ap.add_argument("--save", default=None)
    ap.add_argument("--needs", default="")
    ap.add_argument("--origin", default="independent sub-agent given only the property text")
    a = ap.parse_args()
    checks = (a.checks or a.prop).split(",")
    sha = sh("git -C /repo rev-parse --short HEAD").stdout.strip()
    wt = tempfile.mkdtemp(prefix="mt-%s-" % a.prop)
    os.rmdir(wt)
    out = {"property": a.prop, "repo_head": sha, "checks": {}, "tier": a.tier}
    try:
        r = sh("git -C /repo worktree add --detach %s HEAD" % wt)
        assert r.returncode == 0, r.stderr
        shutil.copy("/repo/dimarray/_version.py", wt + "/dimarray/_version.py")
        import re
        # demos written by the sub-agents may assert that dimarray is imported from THEIR worktree path: point them at this one
        open(wt + "/_demo.py", "w").write(re.sub(r"/tmp/w[t2-9]-C\d+", wt, open(a.demo).read()))
        env = dict(os.environ, PYTHONPATH=os.path.join(VERIF, "mc", "standin") + os.pathsep + wt)   # netCDF4 stand-in for demos that need it
        d0 = sh(["/venv/bin/python", "_demo.py"], cwd=wt, env=env)
        out["demo_clean_exit"] = d0.returncode
        ap_ = sh("git -C %s apply %s" % (wt, os.path.abspath(a.patch)))
        out["patch_applies"] = ap_.returncode == 0
        if ap_.returncode != 0:
            out["patch_error"] = ap_.stderr[-400:]
            print(json.dumps(out, indent=1)); return 2
        d1 = sh(["/venv/bin/python", "_demo.py"], cwd=wt, env=env)
        out["demo_changed_exit"] = d1.returncode
        out["demo_changed_tail"] = (d1.stdout + d1.stderr)[-300:]
        hp = head_pass(sha)
        now = run_tests(wt)
        out["tests_head_passing"] = len(hp)
        out["tests_broken_by_change"] = sorted(hp - now)[:10]
        outdir = tempfile.mkdtemp(prefix="mt-out-")
        for c in checks:
            t0 = time.time()
            env2 = dict(os.environ, DIMARRAY_VERIF_REPO=wt, VERIF_OUT=outdir)
            r = sh(["/venv/bin/python", "-m", "mc.check", c, "--tier", a.tier], cwd=VERIF, env=env2)
            viol = [l for l in r.stdout.splitlines() if l.startswith("VIOLATION")]
            first = ""
            lines = r.stdout.splitlines()
            for i, l in enumerate(lines):
                if l.startswith("VIOLATION") and i + 1 < len(lines):
                    first = lines[i + 1].strip()[:300]; break
            out["checks"][c] = {"exit": r.returncode, "violation_lines": len(viol), "first": first,
                                "summary": lines[-1][:300] if lines else r.stderr[-300:], "wall_s": round(time.time() - t0, 1)}
        shutil.rmtree(outdir, ignore_errors=True)
    finally:
        sh("git -C /repo worktree remove --force %s" % wt)
        shutil.rmtree(wt, ignore_errors=True)
    valid = out.get("demo_clean_exit") == 0 and out.get("demo_changed_exit") not in (0, None) and not out.get("tests_broken_by_change")
    out["valid_seed"] = valid
    out["caught_by"] = [c for c, v in out["checks"].items() if v["exit"] == 1 and v["violation_lines"] > 0]
    print(json.dumps(out, indent=1))
    if a.save and valid:
        d = os.path.join(VERIF, "seeded", a.save)
        os.makedirs(d, exist_ok=True)
        shutil.copy(a.patch, d + "/patch.diff")
        shutil.copy(a.demo, d + "/demo.py")
        meta = {"breaks_property": a.prop, "needs_to_manifest": a.needs, "origin": a.origin,
                "confirmed": {"repo_head": sha, "demo_exit_on_clean_tree": out["demo_clean_exit"],
                              "demo_exit_with_change": out["demo_changed_exit"],
                              "tests_passing_at_head": out["tests_head_passing"], "tests_broken_by_change": out["tests_broken_by_change"],
                              "how": "tools/seed_test.py: scratch worktree of /repo HEAD, git apply, pytest, demo, checks with DIMARRAY_VERIF_REPO=<worktree>"},
                "checks_run": out["checks"], "caught_by": out["caught_by"]}
        json.dump(meta, open(d + "/meta.json", "w"), indent=1)
    return 0 if valid else 1


if __name__ == "__main__":
    sys.exit(main())
