"""developer tool: group the violations of a BFS property by (last event kind, normalised detail)"""
import sys, re, json, collections
from mc import engine

if __name__ == "__main__":
    pid, tier = sys.argv[1], (sys.argv[2] if len(sys.argv) > 2 else "quick")
    mod = engine._load(pid)
    ctx = engine.Context(mod, tier, 0, 16)
    from concurrent.futures import ProcessPoolExecutor
    engine.MAX_STORED = 100000
    ctx.pool = ProcessPoolExecutor(16)
    import mc.engine
    # keep all violations
    orig_merge = ctx.merge
    allv = []
    def merge(p):
        allv.extend(p["violations"]); orig_merge(p)
    ctx.merge = merge
    mod.bfs(tier, ctx)
    ctx.pool.shutdown()
    groups = collections.defaultdict(list)
    for case, detail, klass in allv + ctx.violations:
        ev = case.get("hist", [[None]])[-1]
        groups[(klass, str(ev[0]), re.sub(r"[-0-9.]+", "#", detail)[:110])].append((case, detail))
    print("groups", len(groups), "violations", len(allv))
    for k, v in sorted(groups.items(), key=lambda kv: -len(kv[1]))[:25]:
        print(len(v), k)
        case, detail = min(v, key=lambda cd: len(json.dumps(cd[0])))
        print("     ", json.dumps(case)[:300]); print("     ", detail[:300])
