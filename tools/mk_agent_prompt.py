#!/venv/bin/python
"""print the prompt for an independent mutant-writing sub-agent (property text only, nothing from /verif's machinery)"""
import json, sys
pid, wt = sys.argv[1], sys.argv[2]
extra = sys.argv[3] if len(sys.argv) > 3 else ""
wave = sys.argv[4] if len(sys.argv) > 4 else "1"
WAVE3 = """
Additional guidance for this round: write each change the way a real commit would look - a refactoring, a clean-up, a performance optimisation, or a Python-3 / NumPy-2 modernisation - and put it in SHARED code (helpers and base classes used by several public operations: dimarray/core/bases.py, axes.py, indexing.py, align.py, tools.py, transform.py, reshape.py, dataset.py, prettyprinting aside) rather than in the public function named after the operation. The property must break only as a SIDE EFFECT of the change, and only for some inputs; the diff should look reasonable to a reviewer. At least one of the two changes must sit in a helper that several public operations go through. Choose failing inputs that are as far as possible from what a developer would try first (but inside the scope given above)."""
WAVE4 = """
Additional guidance for this round: aim at state that lives OUTSIDE the array being operated on, or that outlives one call: module-level options (dimarray's rcParams / set_option / get_option and the code that temporarily switches them, e.g. the 'indexing.by' toggling done by .ix), class attributes, mutable default arguments, module-scope caches or scratch buffers, objects shared between an input and a result, values remembered on Axis / Axes / Dataset objects. Each change must make a LATER call (on the same or on another array) misbehave with respect to the property although the call that planted the state looked fine. Also acceptable: an error-handling path (an exception raised half-way) that leaves an option or an object in an altered state, after which ordinary calls break the property. Note: every shell command in this sandbox prints a long, harmless conda error about /root/.condarc before its real output - ignore it, do not try to fix it; redirecting a command's output to a file and reading the file keeps things readable."""
WAVE7 = """
Additional guidance for this round: earlier rounds already covered the obvious line of each operation, shared helpers, and module-level state. This round wants changes that hide in RARELY TAKEN BRANCHES and in COMBINATIONS: a fallback / `except` branch, a dtype-specific branch (bool, unsigned, object or str labels, float labels that are not integers, descending axes), a rarely used keyword or spelling of the operation (positional vs keyword axis, negative axis position, tuple of axes, dict form), rank 0 / 3 / 4 arrays, size-0 and size-1 axes, the second or third operand rather than the first, a Dataset whose variables have different dimension sets - or TWO COOPERATING SITES: a small change in one function that is harmless by itself plus a small change in another that is harmless by itself, wrong only together (deliver them as one patch). Each change must be wrong for a NARROW class of inputs only (say which), and right for everything a developer would try in the first five minutes."""
WAVE2 = "" if wave == "1" else """
Additional guidance for this round: stay away from the single most obvious line for this property. At least ONE of your two changes must need either a SEQUENCE of operations to manifest (state left behind by an earlier call, an object reused after a first call, aliasing between an input and a result, a cache) or the INTERACTION of two features/options (e.g. an option combined with an unusual axis type/dtype/shape, a rarely used keyword, a less common entry point/spelling of the same operation). The other may be a boundary/corner-case slip (empty or size-1 axis, negative position, duplicate or unsorted or mixed-type labels, NaN, object dtype, 0-d / 3-d arrays, descending axes)."""
p = [json.loads(l) for l in open('/verif/properties.jsonl') if json.loads(l)['id'] == pid][0]
print(f"""You are helping to evaluate a verification harness for the Python library perrette/dimarray (labelled N-d arrays on NumPy).
Your job: write small, REALISTIC bugs ("seeded changes") that break one stated property of the library while the library still imports and its existing test-suite still passes.

Work ONLY inside the git worktree {wt} (a checkout of the library at its current HEAD). Never modify or read anything under /repo or /verif. Do not commit anything; leave changes uncommitted.

PROPERTY {pid}: {p['title']}
Statement: {p['statement']}
Scope (what inputs it quantifies over): {p['quantifier']['text']}
Code the property is anchored in: {', '.join(p['anchors']['files'])}

What to produce: TWO different seeded changes (independent of each other; each must apply on the clean worktree by itself):
  {wt}/patch1.diff + {wt}/demo1.py   and   {wt}/patch2.diff + {wt}/demo2.py
Each change must
 * be a realistic bug a maintainer could plausibly introduce: off-by-one, wrong `side=`, wrong axis / position-vs-name mix-up, missing copy, stale cache, swapped arguments, a "shortcut" that is wrong only for some inputs, an optimisation that skips a needed step, two cooperating sites that each look fine alone ... NOT blatant sabotage;
 * need something specific to manifest (a particular ordering of labels, unusual argument combination, particular shape, a multi-step sequence of operations, a particular dtype ...) - ordinary use as in the README/tests must NOT expose it at once;
 * keep every currently passing test passing. Run the suite before and after:
     cd {wt} && PYTHONPATH={wt} /venv/bin/python -m pytest -q -p no:cacheprovider --timeout=900 --continue-on-collection-errors 2>&1 | tail -3
   (at HEAD this gives 229 passed and 11-12 failures/errors that are unrelated environment fall-out; the SAME tests must pass with your change);
 * come with a demonstration script demoN.py that (a) prints dimarray.__file__ (it must point into {wt}; run it as `cd {wt} && PYTHONPATH={wt} /venv/bin/python demoN.py`), (b) exits 0 on the unmodified code and (c) fails (non-zero exit, e.g. an AssertionError showing the wrong result) with the change applied. The demo must check the property as stated above (compare against what the statement promises), not an implementation detail.
 * touch only files under {wt}/dimarray/.
Procedure per change: edit the source; run tests; run the demo (must fail); `git -C {wt} diff -- dimarray > {wt}/patchN.diff`; then `git -C {wt} checkout -- dimarray` and run the demo again (must pass). Verify `git -C {wt} apply --check patchN.diff` works on the clean tree.
Environment: sandbox without network. /venv/bin/python is Python 3.12 with NumPy 2.5 and pytest; netCDF4, pandas and matplotlib are NOT installed. {extra}
Build DimArrays for demos like: `from dimarray import DimArray, Axis; a = DimArray(np.arange(6.).reshape(2,3), axes=[Axis(np.array([10,20]), 'x'), Axis(np.array(['a','b','c'], dtype=object), 'y')])`.

{WAVE7 if wave == "7" else WAVE4 if wave == "4" else (WAVE2 if wave != "3" else WAVE3)}
Final report (plain text): for each change: file/function changed, the diff, why it violates the property, what is needed for it to manifest, pytest summary line before/after, demo output on clean and on changed code. If you could only produce one valid change, say so.""")
