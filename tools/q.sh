#!/bin/bash
# usage: tools/q.sh [-t thorough] C01 C02 ...   -> one short line per check (+ the first violation details)
tier=quick
if [ "$1" = "-t" ]; then tier=$2; shift 2; fi
cd "$(dirname "$0")/.."
for p in "$@"; do
  out=$(/venv/bin/python -m mc.check $p --tier $tier 2>&1); rc=$?
  echo "$p rc=$rc $(echo "$out" | grep "^$p tier" | grep -o 'states=[0-9]* transitions=[0-9]*\|unspecified=[0-9]* violations=[0-9]* known=[0-9]* wall=[0-9.]*s.*' | tr '\n' ' ' | cut -c1-200)"
  echo "$out" | grep -A1 '^VIOLATION' | grep -v '^VIOLATION\|^--' | cut -c1-${QW:-260} | sort | uniq -c | sort -rn | head -${QN:-4}
done
