#!/venv/bin/python
"""Run the repository's own test-suite in a given checkout and compare with BASELINE.json.

usage: /venv/bin/python tools/baseline.py [repo_dir]

Exit 0 iff every test of BASELINE.json's stable_pass list still passes.
Prints the number of passed / failed tests and the names of stable tests that no longer pass.
"""
import json, os, subprocess, sys, tempfile, xml.etree.ElementTree as ET


def run(repo="/repo", quiet=False):
    base = json.load(open("/root/.vp/BASELINE.json"))
    stable = set(base["stable_pass"])
    with tempfile.TemporaryDirectory(prefix="dimarray-baseline-") as tmp:
        xml = os.path.join(tmp, "junit.xml")
        env = dict(os.environ)
        env.pop("DIMARRAY_VERIF", None)
        env["PYTHONPATH"] = repo  # make sure the tests import the checkout under test
        subprocess.run(
            ["/venv/bin/python", "-m", "pytest", "-q", "-p", "no:cacheprovider", "--timeout=900",
             "--continue-on-collection-errors", "--junitxml=" + xml],
            cwd=repo, env=env, stdout=subprocess.DEVNULL, stderr=subprocess.DEVNULL)
        tree = ET.parse(xml)
    passed, failed = set(), set()
    for tc in tree.iter("testcase"):
        name = "{}::{}".format(tc.get("classname"), tc.get("name"))
        # BASELINE names look like tests.test_axes::test_append or tests.test_dataset.TestStructure::test_axes
        bad = any(ch.tag in ("failure", "error", "skipped") for ch in tc)
        (failed if bad else passed).add(name)
    missing = sorted(stable - passed)
    if not quiet:
        print("passed={} failed={} stable_expected={} stable_missing={}".format(
            len(passed), len(failed), len(stable), len(missing)))
        for m in missing[:20]:
            print("  MISSING", m)
    return len(missing) == 0, len(passed), missing


if __name__ == "__main__":
    ok, _, _ = run(sys.argv[1] if len(sys.argv) > 1 else "/repo")
    sys.exit(0 if ok else 1)
