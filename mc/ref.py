"""Reference model: a deliberately boring labelled array.

RA(dims, labels, vals): `labels` are plain python lists, `vals` is an ndarray used only as a
container that is read / written one cell at a time inside nested python loops.  No fancy
indexing, argsort, searchsorted, union1d ... is used here, so the reference shares no mechanism
with dimarray/core/indexing.py or align.py.  NumPy functions are called only where the property
text itself names NumPy as the oracle (reductions, cumsum, diff, interp, positional indexing).
"""
import itertools, math
import numpy as np

NAN = float("nan")


class RefRaises(Exception):
    """the property promises an exception of (a subclass of) .cls"""
    def __init__(self, cls, why=""):
        Exception.__init__(self, why)
        self.cls = cls
        self.why = why


class Unspecified(Exception):
    """the property is silent on this input"""


def isnan(x):
    return isinstance(x, (float, np.floating)) and x != x


def eq(a, b):
    """label equality as python scalars (1 == 1.0); str never equals a number"""
    if isinstance(a, np.generic):
        a = a.item()
    if isinstance(b, np.generic):
        b = b.item()
    if isinstance(a, str) != isinstance(b, str):
        return False
    if isinstance(a, tuple) or isinstance(b, tuple):
        return isinstance(a, tuple) and isinstance(b, tuple) and len(a) == len(b) and all(eq(x, y) for x, y in zip(a, b))
    return a == b


class RA(object):
    def __init__(self, dims, labels, vals, attrs=None, axattrs=None):
        self.dims = tuple(dims)
        self.labels = tuple(list(l) for l in labels)
        self.vals = np.asarray(vals)
        assert self.vals.shape == tuple(len(l) for l in self.labels), (self.vals.shape, self.labels)
        self.attrs = dict(attrs or {})
        self.axattrs = dict(axattrs or {})   # dim -> dict

    @property
    def shape(self):
        return tuple(len(l) for l in self.labels)

    @property
    def ndim(self):
        return len(self.dims)

    def copy(self):
        return RA(self.dims, self.labels, self.vals.copy(), self.attrs, self.axattrs)

    def cell(self, pos):
        return self.vals[tuple(pos)] if pos else self.vals[()]

    def __repr__(self):
        return "RA(dims={}, labels={}, vals={})".format(self.dims, list(self.labels), self.vals.tolist())


def all_positions(shape):
    return itertools.product(*[range(n) for n in shape])


# ------------------------------------------------------------------------------------------
# locating labels
# ------------------------------------------------------------------------------------------
def first_match(labels, v):
    for p, l in enumerate(labels):
        if eq(l, v):
            return p
    return None


def is_num(v):
    if isinstance(v, np.generic):
        v = v.item()
    return isinstance(v, (int, float)) and not isinstance(v, bool)


def nearest(labels, v, tol):
    """positions of nearest labels within tol (several on a tie); [] if none"""
    best, where = None, []
    for p, l in enumerate(labels):
        d = 0.0 if l == v else abs(l - v)      # (an infinite label is at distance 0 from itself, not inf - inf)
        if best is None or d < best:
            best, where = d, [p]
        elif d == best:
            where.append(p)
    if best is None or not (best <= tol):     # a NaN query is within no tolerance of any label
        return []
    return where


def locate_scalar(labels, v, kind, tol=None):
    """-> list of acceptable positions (more than one only for nearest-neighbour ties)"""
    if tol is not None and kind in "if":
        if not is_num(v):
            raise Unspecified("non-numeric query with tolerance")
        w = nearest(labels, v, tol)
        if not w:
            raise RefRaises(IndexError, "no label within tol")
        return w
    p = first_match(labels, v)
    if p is None:
        raise RefRaises(IndexError, "label {!r} absent".format(v))
    return [p]


def monotonic_dir(labels):
    """+1 increasing, -1 decreasing, 0 not monotonic; lengths 0/1 -> None (both)"""
    if len(labels) < 2:
        return None
    inc = all(labels[i + 1] > labels[i] for i in range(len(labels) - 1))
    dec = all(labels[i + 1] < labels[i] for i in range(len(labels) - 1))
    return 1 if inc else (-1 if dec else 0)


def _slice_bbox(labels, start, stop, step, d):
    """bounding-box slice on a monotonic numeric axis with direction d (+1 / -1)"""
    n = len(labels)
    t = 1 if (step is None or step > 0) else -1
    order = list(range(n)) if t > 0 else list(range(n - 1, -1, -1))
    increasing = (d * t) > 0   # labels along the traversal
    sel = []
    for p in order:
        l = labels[p]
        if increasing:
            okk = (start is None or l >= start) and (stop is None or l <= stop)
        else:
            okk = (start is None or l <= start) and (stop is None or l >= stop)
        if okk:
            sel.append(p)
    k = abs(step) if step else 1
    return sel[::k]


def _slice_strict(labels, start, stop, step):
    n = len(labels)
    t = 1 if (step is None or step > 0) else -1
    if start is not None:
        i0 = first_match(labels, start)
        if i0 is None:
            raise RefRaises(IndexError, "slice bound absent")
    else:
        i0 = 0 if t > 0 else n - 1
    if stop is not None:
        i1 = first_match(labels, stop)
        if i1 is None:
            raise RefRaises(IndexError, "slice bound absent")
    else:
        i1 = n - 1 if t > 0 else 0
    if n == 0:
        return []
    sel = list(range(i0, i1 + 1)) if t > 0 else list(range(i0, i1 - 1, -1))
    k = abs(step) if step else 1
    return sel[::k]


def locate_slice(labels, kind, start, stop, step):
    """-> list of acceptable position lists (C02 semantics)"""
    if start is None and stop is None and step is None:
        return [list(range(len(labels)))]
    if step == 0:
        raise Unspecified("zero step")
    numeric = kind in "if"
    if numeric:
        d = monotonic_dir(labels)
        for b in (start, stop):
            if b is not None and not is_num(b):
                raise Unspecified("non-numeric bound on numeric axis")
        if d is None:
            # length 0 or 1: the direction of the axis is undefined.  With lo <= hi (or an open bound) and a forward step the statement is
            # unambiguous whatever the direction - the label is selected iff lo <= label <= hi - which is the increasing reading; only for
            # lo > hi or a negative step does the answer depend on the direction, and then either reading is accepted
            forward = (start is None or stop is None or start <= stop) and (step is None or step > 0)
            alts = [_slice_bbox(labels, start, stop, step, 1), _slice_bbox(labels, start, stop, step, -1)]
            return [alts[0]] if (forward or alts[0] == alts[1]) else alts
        if d != 0:
            return [_slice_bbox(labels, start, stop, step, d)]
    return [_slice_strict(labels, start, stop, step)]


# ------------------------------------------------------------------------------------------
# per-dimension index resolution
# ------------------------------------------------------------------------------------------
# encoded per-dimension index (JSON-able):
#   ["full"] | ["s", v] | ["nps", v] | ["l", [..]] | ["nd", [..]] | ["m", [bool..]] | ["ml", [bool..]]
#   | ["sl", start, stop, step] | ["e"] (Ellipsis, only inside tuples)

def decode_ix(ix, kind=None):
    tag = ix[0]
    if tag == "full":
        return slice(None)
    if tag == "s":
        return ix[1]
    if tag == "nps":
        v = ix[1]
        return np.str_(v) if isinstance(v, str) else (np.float64(v) if isinstance(v, float) else np.int64(v))
    if tag == "l":
        return list(ix[1])
    if tag == "nd":
        vals = list(ix[1])
        if vals and isinstance(vals[0], str):
            return np.array(vals, dtype=object)
        if not vals:
            return np.array([], dtype=(float if kind == "f" else (object if kind == "O" else int)))
        return np.array(vals)
    if tag == "ndu":      # positions as an array of UNSIGNED integers (what np.nonzero / np.unique of unsigned data give)
        return np.array(list(ix[1]), dtype=np.uint8)
    if tag == "m":
        return np.array(ix[1], dtype=bool)
    if tag == "ml":
        return [bool(b) for b in ix[1]]
    if tag == "sl":
        return slice(ix[1], ix[2], ix[3])
    if tag == "e":
        return Ellipsis
    raise ValueError(ix)


def resolve(labels, kind, ix, mode="label", tol=None, keepdims=False):
    """-> list of alternatives, each ('drop', p) or ('keep', [p..]).  Raises RefRaises / Unspecified."""
    n = len(labels)
    tag = ix[0]
    if tag == "full":
        return [("keep", list(range(n)))]
    if tag in ("m", "ml"):
        mask = ix[1]
        if len(mask) != n:
            raise Unspecified("mask length")
        return [("keep", [p for p in range(n) if mask[p]])]
    if mode == "position":
        rng = np.arange(n)
        try:
            if tag in ("s", "nps"):
                if isinstance(ix[1], bool) or not isinstance(ix[1], int):
                    raise Unspecified("non-int position")
                p = int(rng[ix[1]])
                return [("keep", [p])] if keepdims else [("drop", p)]
            if tag in ("l", "nd", "ndu"):
                if any(isinstance(v, bool) or not isinstance(v, int) for v in ix[1]):
                    raise Unspecified("non-int positions")
                return [("keep", [int(rng[v]) for v in ix[1]])]
            if tag == "sl":
                return [("keep", [int(p) for p in rng[slice(ix[1], ix[2], ix[3])]])]
        except IndexError:
            raise RefRaises(IndexError, "position out of range")
        raise Unspecified(tag)
    # label mode
    if tag in ("s", "nps"):
        alts = locate_scalar(labels, ix[1], kind, tol)
        return [("keep", [p]) for p in alts] if keepdims else [("drop", p) for p in alts]
    if tag in ("l", "nd", "ndu"):
        per = [locate_scalar(labels, v, kind, tol) for v in ix[1]]
        out = [("keep", list(c)) for c in itertools.product(*per)] if per else [("keep", [])]
        return out[:8]
    if tag == "sl":
        return [("keep", sel) for sel in locate_slice(labels, kind, ix[1], ix[2], ix[3])]
    raise Unspecified(tag)


def expand_tuple(ixs, ndim):
    """expand an encoded index tuple (possibly containing ["e"]) to ndim entries"""
    ixs = list(ixs)
    out = []
    seen = False
    for k in ixs:
        if k[0] == "e":
            if seen:
                out.append(["full"])
            else:
                out.extend([["full"]] * (ndim + 1 - len(ixs)))
                seen = True
        else:
            out.append(k)
    if len(out) > ndim:
        raise RefRaises(IndexError, "too many indices")
    out.extend([["full"]] * (ndim - len(out)))
    return out


def select(ra, perdim):
    """orthogonal selection. perdim[i] = ('drop', p) | ('keep', [p..]) -> RA or python scalar"""
    keep = [i for i, (k, _) in enumerate(perdim) if k == "keep"]
    lists = [([pp] if k == "drop" else pp) for k, pp in perdim]
    outshape = [len(perdim[i][1]) for i in keep]
    if not keep:
        return ra.cell([l[0] for l in lists])
    out = np.empty(outshape, dtype=ra.vals.dtype)
    for outpos in all_positions([len(l) for l in lists]):
        src = tuple(lists[i][outpos[i]] for i in range(len(lists)))
        dst = tuple(outpos[i] for i in keep)
        out[dst] = ra.vals[src]
    return RA([ra.dims[i] for i in keep],
              [[ra.labels[i][p] for p in perdim[i][1]] for i in keep], out, ra.attrs,
              {ra.dims[i]: ra.axattrs.get(ra.dims[i], {}) for i in keep})


def resolve_all(ra, kinds, ixs, mode="label", tol=None, keepdims=False):
    """-> list of alternative perdim tuples"""
    ixs = expand_tuple(ixs, ra.ndim)
    per = [resolve(ra.labels[i], kinds[i], ixs[i], mode, tol, keepdims) for i in range(ra.ndim)]
    return [tuple(c) for c in itertools.islice(itertools.product(*per), 16)]


def coordmap(ra):
    """{frozenset((dim, label)...): value} -- requires unique labels per axis"""
    out = {}
    for pos in all_positions(ra.shape):
        key = frozenset((ra.dims[i], _hashable(ra.labels[i][pos[i]])) for i in range(ra.ndim))
        out[key] = ra.vals[pos] if pos else ra.vals[()]
    return out


def _hashable(l):
    if isinstance(l, np.generic):
        l = l.item()
    if isinstance(l, float) and l == int(l) and not math.isinf(l):
        return int(l)   # 1 == 1.0 label identity
    if isinstance(l, list):
        return tuple(_hashable(x) for x in l)
    if isinstance(l, tuple):
        return tuple(_hashable(x) for x in l)
    return l
