"""Finite alphabets: label vectors, array specs, builders for implementation and reference."""
import itertools
import numpy as np
from mc import common
from mc.common import da, DimArray, Dataset, Axis
from mc.ref import RA

BASE = {"i": [10, 20, 30, 40, 50, 60], "f": [0.5, 1.5, 2.5, 3.5, 4.5, 5.5], "O": ["a", "b", "c", "d", "e", "f"]}
ABSENT_BETWEEN = {"i": 25, "f": 1.0, "O": "bb"}
ABSENT_BELOW = {"i": 5, "f": -1.5, "O": "A"}
ABSENT_ABOVE = {"i": 95, "f": 9.5, "O": "zz"}
EXTRA = {"i": 990, "f": 99.5, "O": "zzz"}   # label appended by the 'slice' state variant
NPDT = {"i": np.int64, "f": np.float64, "O": object}


def extra_label(labels, kind):
    """label appended by the 'slice' variant: breaks the monotonicity of the big axis when the slice itself is sorted, so that a
    cached 'not monotonic' verdict of the source is stale for the slice"""
    lo, hi = {"i": (1, 990), "f": (-9.5, 99.5), "O": ("A", "zzz")}[kind]
    if len(labels) >= 2 and all(labels[i] < labels[i + 1] for i in range(len(labels) - 1)):
        return lo
    return hi


def labels_of(kind, n, order="inc"):
    """order: 'inc' | 'dec' | 'shuf' (a fixed derangement-like shuffle) | tuple permutation"""
    base = BASE[kind][:n]
    if isinstance(order, str) and order.startswith("big"):
        # the same label pattern at a large magnitude (Julian days / dates written YYYYMMDD): single-precision casts and relative
        # tolerances that are harmless on labels of order 1-100 are not harmless here
        off = {"i": 20200100, "f": 2451545.0}[kind]
        return [l + off for l in labels_of(kind, n, order[3:] or "inc")]
    if order == "inc":
        return list(base)
    if order == "dec":
        return list(base[::-1])
    if order == "shuf":
        if n < 3:
            return list(base[::-1])
        perm = {3: (1, 2, 0), 4: (2, 0, 3, 1), 5: (3, 0, 4, 1, 2), 6: (3, 0, 4, 1, 5, 2)}[n]
        return [base[p] for p in perm]
    return [base[p] for p in order]


def all_orders(n):
    return list(itertools.permutations(range(n)))


def np_labels(labels, kind):
    return np.array(list(labels), dtype=NPDT[kind])


def cell_value(pos, shape, base=100):
    v = base
    for p in pos:
        v = v * 10 + p
    return v


def make_values(shape, vk="f", base=1, nan=(), enc="coord"):
    """injective encoding of the coordinate in every cell (enc='small': small positive numbers, for arithmetic)"""
    shape = tuple(shape)
    n = int(np.prod(shape)) if shape else 1
    if vk == "O":
        out = np.empty(shape, dtype=object)
    elif vk == "b":
        out = np.empty(shape, dtype=bool)
    elif vk in ("i", "i4", "i1", "u1", "i2", "u2", "u8"):
        out = np.empty(shape, dtype=np.int64)
    else:
        out = np.empty(shape, dtype=np.float64)
    for k, pos in enumerate(itertools.product(*[range(s) for s in shape])):
        c = cell_value(pos, shape, base)
        if enc == "nl":     # non-linear in the position along any axis (interpolation weights become visible)
            c = ((k * k * 3 + k) % 19) + base + (0.25 * (k % 5) if vk in ("f", "f4") else 0)
        if enc == "big":      # magnitudes that single precision cannot hold exactly (odd numbers above 2**24)
            c = 16777217 + 2 * k + 1000 * (base % 7)
        if enc == "one":
            c = 1
        if enc == "zero":
            c = 0
        if enc == "small":
            c = (2 + k + base % 3) if vk == "i" else (1.25 + 0.125 * k + (base % 4) * 0.03125)   # never 1: pow(1, nan) == 1
        if vk == "O":
            out[pos] = "v%d" % c
        elif vk == "b":
            out[pos] = bool((k * 7 + k // 3 + base) % 2)
        else:
            out[pos] = c
    if vk == "f4":       # single precision (all encoded values are exactly representable in it)
        out = out.astype(np.float32)
    if vk == "i4":
        out = out.astype(np.int32)
    if vk in ("i1", "u1", "i2", "u2"):      # narrow integers: only for encodings that fit (small arrays, base 1)
        assert out.size == 0 or (out.min() >= 0 and out.max() < 128), "values do not fit " + vk
        out = out.astype(vk)
    if vk == "u8":                          # unsigned 64-bit: as wide as int64, but cannot hold negative numbers
        out = out.astype(np.uint64)
    if nan and vk in ("f", "f4"):
        flat = out.reshape(-1)
        for k in nan:
            if k < flat.size:
                flat[k] = np.nan
    return out


def spec(dims, labels, kinds, vk="f", base=1, nan=(), var="fresh", attrs=None, axattrs=None, opt=None, enc=None):
    s = {"dims": list(dims), "labels": [list(l) for l in labels], "kinds": list(kinds), "vk": vk, "base": base}
    if nan:
        s["nan"] = list(nan)
    if var != "fresh":
        s["var"] = var
    if attrs:
        s["attrs"] = attrs
    if axattrs:
        s["axattrs"] = axattrs
    if opt:
        s["opt"] = opt
    if enc:
        s["enc"] = enc
    return s


def shape_of(s):
    return tuple(len(l) for l in s["labels"])


REUSE = {}      # spec key -> (DimArray, RA): set by the engine for the second pass of a case ("operate - edit in place - operate again"):
                # the builders then hand out the SAME, already used and edited, object and the correspondingly edited reference
LAST = {}       # spec key -> the DimArray built last for it (recorded while RECORD is on)
RECORD = False


def _key(s):
    import json
    return json.dumps(s, sort_keys=True, default=str)


def build_ref(s):
    if REUSE:
        k = _key(s)
        if k in REUSE:
            return REUSE[k][1]
    vals = make_values(shape_of(s), s.get("vk", "f"), s.get("base", 1), s.get("nan", ()), s.get("enc", "coord"))
    return RA(s["dims"], s["labels"], vals, s.get("attrs"), s.get("axattrs"))


def decoy_spec(s):
    """another array that looks like `s` from a distance - same dims, sizes, kinds, first and last label of every axis - but has other labels in
    between and other values; None when no axis has an interior label.  Running a case on the decoy first exposes anything the library remembers
    under a key coarser than the full content (names, sizes, end points, object identities of freed arrays)"""
    labels2, changed = [], False
    for lab, kind in zip(s["labels"], s["kinds"]):
        l2 = list(lab)
        if len(l2) >= 4:
            l2[1:-1] = l2[1:-1][::-1]
            changed = True
        elif len(l2) == 3:
            new = (l2[1] + "_") if kind == "O" else (l2[1] + (0.25 if kind == "f" else 1))
            if new not in l2:
                l2[1] = new
                changed = True
        labels2.append(l2)
    if not changed:
        return None
    return dict(s, labels=labels2, base=s.get("base", 1) + 1)


def decoy_rotated(s):
    """a second look-alike: the same dimension names, labels and kinds with the dimensions in ROTATED order (every name sits at another
    position); None below two dimensions"""
    nd = len(s["dims"])
    if nd < 2:
        return None
    rot = lambda l: list(l[1:]) + list(l[:1])
    d = dict(s, dims=rot(s["dims"]), labels=rot(s["labels"]), kinds=rot(s["kinds"]), base=s.get("base", 1) + 2)
    d.pop("nan", None)
    return d


def edit_in_place(a, ra, s, how):
    """edit the array through the public API and return the correspondingly edited reference (None when the edit does not apply)"""
    if not ra.ndim:
        return None
    if how == "swap_labels":
        labels2, done = [], False
        for i, (lab, kind) in enumerate(zip(ra.labels, s["kinds"])):
            l2 = list(lab)
            if len(l2) >= 2 and type(a.axes[i]) is Axis:
                l2[0], l2[1] = l2[1], l2[0]
                a.set_axis(np_labels(l2, kind), axis=i)
                done = True
            labels2.append(l2)
        return RA(ra.dims, labels2, ra.vals, ra.attrs, ra.axattrs) if done else None
    if how == "assign_cell":
        if ra.vals.dtype.kind not in "fi" or not ra.vals.size:
            return None
        a.put(tuple(l[0] for l in ra.labels), 7, indexing="label")
        v2 = ra.vals.copy()
        v2[(0,) * ra.ndim] = 7
        return RA(ra.dims, ra.labels, v2, ra.attrs, ra.axattrs)
    raise ValueError(how)


def _axes(s, labels=None):
    labels = labels or s["labels"]
    axes = []
    for i, (d, l, k) in enumerate(zip(s["dims"], labels, s["kinds"])):
        lv = np_labels(l, k)
        if s.get("ldt") and s["ldt"][i]:        # narrow label dtype (int8 ... float32): fresh-variant specs only
            lv = lv.astype(s["ldt"][i])
        ax = Axis(lv, d, tol=s["axtol"][i]) if s.get("axtol") and s["axtol"][i] is not None else Axis(lv, d)   # axis-level tolerance
        for ak, av in (s.get("axattrs") or {}).get(d, {}).items():
            ax.attrs[ak] = av
        axes.append(ax)
    return axes


VSHIFT = 0     # set by the engine from case['vshift'] (thorough tier of modules with VARIANT_SWEEP): rotates the non-fresh state variants,
               # so that every case is executed on every history variant of its array, not only on the one its index selects


def build_impl(s):
    if REUSE or RECORD:
        k = _key(s)
        if k in REUSE:
            return REUSE[k][0]
        a = _build_impl(s)
        if RECORD:
            LAST[k] = a
        return a
    return _build_impl(s)


def _build_impl(s):
    """DimArray for a spec; harness constructors always pass ndarrays and Axis objects"""
    var = s.get("var", "fresh")
    if VSHIFT and var != "fresh":
        nf = VARIANTS[1:]
        var = nf[(nf.index(var) + VSHIFT) % len(nf)]
    opt = s.get("opt")
    prev_by = da.rcParams.get("indexing.by")
    if opt:
        da.rcParams["indexing.by"] = opt
    try:
        vals = make_values(shape_of(s), s.get("vk", "f"), s.get("base", 1), s.get("nan", ()), s.get("enc", "coord"))
        nd = len(s["dims"])
        if var == "fresh" or nd == 0:
            a = DimArray(vals, axes=_axes(s))
        elif var == "T":
            perm = list(range(nd))[::-1]
            axes = _axes(s)
            b = DimArray(np.ascontiguousarray(vals.transpose(perm)), axes=[axes[i] for i in perm])
            a = b.transpose(*s["dims"])
        elif var == "slice":
            big_labels = [list(l) + [extra_label(l, k)] for l, k in zip(s["labels"], s["kinds"])]
            big = np.zeros([len(l) for l in big_labels], dtype=vals.dtype)
            if vals.dtype == object:
                big[...] = "pad"
            big[tuple(slice(0, n) for n in vals.shape)] = vals
            b = DimArray(big, axes=_axes(s, big_labels))
            for ax in b.axes:
                ax.is_monotonic()
            a = b.take(tuple(slice(0, n) for n in vals.shape), indexing="position")
        elif var == "take":
            a = DimArray(vals, axes=_axes(s))
            for i in range(nd):
                a = a.take_axis(np.arange(vals.shape[i]), axis=i, indexing="position")
        elif var == "ds":
            ds = Dataset()
            ds["v"] = DimArray(vals, axes=_axes(s))
            a = ds["v"]
        elif var == "mono":
            a = DimArray(vals, axes=_axes(s))
            for ax in a.axes:
                ax.is_monotonic()
        elif var == "relabel":
            # an array that was USED under other labels (a rotation of the final ones: another sort permutation, another monotonic verdict) -
            # sorted, re-indexed, aligned and added to a partner, so that whatever the library caches on the Axis objects is filled -
            # and then relabelled IN PLACE through the public API (a.<dim> = labels on even dimensions, axis[i] = label on odd ones)
            old = [list(l[1:]) + list(l[:1]) for l in s["labels"]]
            a = DimArray(vals, axes=_axes(s, old))
            # ... and under other dimension NAMES (the same names rotated by one), renamed in place afterwards with a.dims = (...)
            if nd >= 2:
                a.dims = tuple(s["dims"][1:]) + tuple(s["dims"][:1])
            for i, ax in enumerate(a.axes):
                try:
                    a.sum(axis=ax.name); a.cumsum(axis=ax.name); a._get_axis_info(ax.name); a.axes[ax.name]
                except Exception:
                    pass
            if nd >= 2:
                a.dims = tuple(s["dims"])
            for i, ax in enumerate(a.axes):
                try:
                    ax.is_monotonic()
                    a.sort_axis(axis=i)
                    a.reindex_axis(np_labels(sorted(old[i])[::-1], s["kinds"][i]), axis=i)
                    b = a.take_axis([ax.size - 1], axis=i, indexing="position")
                    a + b
                    da.align([b, a])
                    a[old[i][0]:]
                except Exception:
                    pass
            for i, (d, l, k) in enumerate(zip(s["dims"], s["labels"], s["kinds"])):
                if i % 2 == 0:
                    setattr(a, d, np_labels(l, k))
                else:
                    for j, v in enumerate(np_labels(l, k)):
                        a.axes[i][j] = v
        elif var == "rslice":
            # a REVERSED slice of a bigger array that was used before (sorted, re-indexed, aligned, sliced by label): what the library
            # remembers about the parent's axes (ordering) must not be handed to a child whose labels run the other way
            # parent labels: the reversed labels followed by one more label that CONTINUES their order when they are sorted (so that a sorted
            # child comes from a parent sorted the other way)
            def _cont(l, k):
                r = list(l)[::-1]
                lo, hi = {"i": (1, 990), "f": (-9.5, 99.5), "O": ("A", "zzz")}[k]
                if len(r) >= 2 and all(r[i] > r[i + 1] for i in range(len(r) - 1)):
                    return r + [lo]
                return r + [hi]
            big_labels = [_cont(l, k) for l, k in zip(s["labels"], s["kinds"])]
            big = np.zeros([len(l) for l in big_labels], dtype=vals.dtype)
            if vals.dtype == object:
                big[...] = "pad"
            big[tuple(slice(0, n) for n in vals.shape)] = vals[tuple(slice(None, None, -1) for _ in vals.shape)]
            b = DimArray(big, axes=_axes(s, big_labels))
            for i, ax in enumerate(b.axes):
                try:
                    ax.is_monotonic()
                    b.sort_axis(axis=i)
                    b.reindex_axis(np_labels(big_labels[i][::-1], s["kinds"][i]), axis=i)
                    b + b.take_axis([0], axis=i, indexing="position")
                    b.take({ax.name: slice(big_labels[i][1], None)}, indexing="label")
                except Exception:
                    pass
            a = b.take(tuple(slice(n - 1, None, -1) if n else slice(0, 0) for n in vals.shape), indexing="position")
        elif var == "shallow":
            # a shallow copy (copy(shallow=True), the documented way "to overwrite attributes without affecting the initial array") of an array
            # that was USED under other labels - every along-axis method called once - and that then gets its own axes
            old = [list(l[1:]) + list(l[:1]) for l in s["labels"]]
            a0 = DimArray(vals, axes=_axes(s, old))
            for f in ("sum", "prod", "mean", "var", "std", "min", "max", "ptp", "all", "any", "median", "cumsum", "cumprod", "argmin", "argmax", "diff"):
                try:
                    getattr(a0, f)(axis=0)
                    getattr(a0, f)()
                except Exception:
                    pass
            a = a0.copy(shallow=True)
            a.axes = _axes(s)
        else:
            raise ValueError(var)
        for k, v in (s.get("attrs") or {}).items():
            a.attrs[k] = v
        if opt:
            a._indexing = opt
        return a
    finally:
        # restore only what this builder set itself: option state LEFT BEHIND by an earlier library call must stay visible to the calls
        # that follow (the engine looks at it after the case, see engine.safe_check)
        if opt:
            da.rcParams["indexing.by"] = prev_by


VARIANTS = ["fresh", "T", "slice", "take", "ds", "mono", "relabel", "shallow", "rslice"]


def compare(impl, ref, rtol=0.0, attrs=False, dtype_kind=None, axattrs=False, what="result"):
    """impl: DimArray or scalar; ref: RA or scalar. -> None or message"""
    from mc.common import same_scalar, same_values, same_list, py, describe
    if not isinstance(ref, RA):
        if isinstance(impl, DimArray):
            if impl.ndim == 0 and same_scalar(impl.values[()], ref, rtol):
                return None  # 0-d DimArray holding the right scalar is not a mismatch of stated behaviour
            return "{}: expected scalar {!r}, got {}".format(what, py(ref), describe(impl))
        if not same_scalar(impl, ref, rtol):
            return "{}: expected scalar {!r}, got {!r}".format(what, py(ref), py(impl))
        return None
    if not isinstance(impl, DimArray):
        return "{}: expected an array with dims {}, got {}".format(what, ref.dims, describe(impl))
    if tuple(impl.dims) != tuple(ref.dims):
        return "{}: dims {} != expected {}".format(what, impl.dims, ref.dims)
    w = common.wellformed(impl)
    if w:
        return "{}: malformed array: {}".format(what, w)
    for i, d in enumerate(ref.dims):
        if not same_list(py(impl.axes[i].values), ref.labels[i]):
            return "{}: labels of {!r} are {} expected {}".format(what, d, py(impl.axes[i].values), ref.labels[i])
    if not same_values(impl.values, ref.vals, rtol):
        return "{}: values {} expected {} (dims {}, labels {})".format(
            what, py(impl.values), py(ref.vals), ref.dims, list(ref.labels))
    if dtype_kind and impl.values.dtype.kind != dtype_kind:
        return "{}: dtype kind {} expected {}".format(what, impl.values.dtype.kind, dtype_kind)
    if attrs and common.freeze(dict(impl.attrs)) != common.freeze(dict(ref.attrs)):
        return "{}: attrs {} expected {}".format(what, dict(impl.attrs), ref.attrs)
    if axattrs:
        for i, d in enumerate(ref.dims):
            if common.freeze(dict(impl.axes[i].attrs)) != common.freeze(dict(ref.axattrs.get(d, {}))):
                return "{}: axis {} attrs {} expected {}".format(what, d, dict(impl.axes[i].attrs), ref.axattrs.get(d, {}))
    return None


def compare_alts(impl, refs, **kw):
    """accept if impl matches any of the acceptable reference results"""
    msg = None
    for r in refs:
        m = compare(impl, r, **kw)
        if m is None:
            return None
        msg = msg or m
    return msg
