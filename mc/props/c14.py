"""C14 - Dataset-wide operations equal the per-variable operations  (differential: the DimArray path is the reference).

clause -> observable -> oracle
  indexing (take, .ix/.loc/.sel/.isel), reductions, take_axis, sort_axis, reindex_axis, interp_axis, arithmetic, stack_ds /
  concatenate_ds: for every variable that has the affected dimension the result equals the DimArray operation on that variable
                                                        -> per-variable values / dims / labels vs the same call on ds[k]
  variables without that dimension are left unchanged    -> snapshot of the variable
  the result again satisfies the shared-axes rule        -> identity of result[k].axes[d] and result.axes[d]
  dataset metadata carried by indexing, take_axis, sort_axis, reindex_axis, interp_axis -> result.attrs
  if the DimArray operation raises for a variable (absent label, raise_error=True ...) the Dataset operation must raise as well
The correctness of the DimArray operations themselves is C01-C18.
Not covered: key order of the result, concatenate_ds when a variable lacks the concatenation dimension.
"""
import itertools
import numpy as np
from mc import common, domains as D, ref as R
from mc.engine import ok, bad, unspecified
from mc.common import call, Raised, DimArray, Dataset, Axis, py, same_list, same_scalar
from mc.ref import decode_ix

ID = "C14"
TITLE = "Dataset-wide operations equal per-variable operations"
RULE = ("product of (Datasets of 1-4 variables over x,y with 0-d variables and variables lacking the operated dimension, mixed label "
        "kinds / orders, dataset and variable attrs) x (indexing menu x spellings, 5 reductions x axis forms x skipna, take_axis, "
        "sort_axis, reindex_axis present/missing/fill/raise_error, interp_axis in/out of range, arithmetic with scalars on both sides and "
        "with a second Dataset of equal or differing axes, unary minus, stack_ds / concatenate_ds of 2-3 Datasets with align on/off); "
        "non-trivial = at least one variable has the operated dimension")
ASSUMPTIONS = ["the DimArray operation on each variable is the reference (its own correctness is established by C01-C18)"]

XI, XF, YL = [30, 10, 20], [2.5, 0.5, 1.5], ["b", "a"]


def bounds(tier):
    return {"datasets": 6 + len(gen_names(tier)), "max_vars": 4, "stack_lists": "2-3 datasets",
            "generated_datasets": "all combinations of {} of the 8 pool variables over x,y,z (0-d, 1-d, 2-d both orders, 3-d, with NaN) x x-label kinds {}".format(
                "1-2" if tier == "quick" else "1-4", "int/float/str (4-variable combinations: int only)")}


ZL = [7, 3]
XS = ["q", "p", "r"]
POOL = "abcdefgh"


def gen_specs(which):
    """generated Datasets 'g:<pool letters>:<x kind>': every combination of pool variables over the dimensions x, y, z"""
    _, letters, kx = which.split(":")
    x = {"i": XI, "f": XF, "O": XS, "s": sorted(XF)}[kx]       # 's': float labels stored in increasing order
    kx = "f" if kx == "s" else kx
    pool = {
        "a": D.spec(["x", "y"], [x, YL], [kx, "O"], vk="f", base=2, attrs={"long": "v"}, axattrs={"x": {"units": "m"}, "y": {"kind": "s"}}),
        "b": D.spec(["x"], [x], [kx], vk="i", base=3),
        "c": D.spec([], [], [], vk="f", base=4, attrs={"const": [1], "units": "1"}),     # 0-d, with metadata of its own
        "d": D.spec(["y", "x"], [YL, x], ["O", kx], vk="f", base=5),
        "e": D.spec(["y"], [YL], ["O"], vk="f", base=6, attrs={"u": 1}),
        "f": D.spec(["x", "y", "z"], [x, YL, ZL], [kx, "O", "i"], vk="f", base=7),
        "g": D.spec(["z"], [ZL], ["i"], vk="i", base=8),
        "h": D.spec(["z", "x"], [ZL, x], ["i", kx], vk="f", base=9, nan=(1, 4)),
    }
    if which.split(":")[2] == "s":
        # the sorted float x axis also carries a tolerance of its own (Axis(..., tol=)): Dataset and per-variable results agree on it too
        for c in pool:
            if "x" in pool[c]["dims"]:
                pool[c] = dict(pool[c], axtol=[0.25 if d == "x" else None for d in pool[c]["dims"]])
    return [("v" + c, pool[c]) for c in letters]


def gen_names(tier):
    out = []
    sizes = (1, 2) if tier == "quick" else (1, 2, 3, 4)
    for n in sizes:
        for comb in itertools.combinations(POOL, n):
            for kx in ("i", "f", "O", "s"):
                if n == 4 and kx != "i":
                    continue
                out.append("g:{}:{}".format("".join(comb), kx))
    return out


def ds_specs(which):
    """-> list of (key, spec)"""
    if which.startswith("g:"):
        return gen_specs(which)
    x = XF if which in ("float", "float2") else XI
    kx = "f" if which in ("float", "float2") else "i"
    V = D.spec(["x", "y"], [x, YL], [kx, "O"], vk="f", base=2, attrs={"long": "v"}, nan=(1,) if which == "nan" else ())
    W = D.spec(["x"], [x], [kx], vk="i" if which != "float" else "f", base=3)
    S = D.spec([], [], [], vk="f", base=4, attrs={"const": [1]})
    T = D.spec(["y", "x"], [YL, x], ["O", kx], vk="f", base=5)
    U = D.spec(["y"], [YL], ["O"], vk="f", base=6, attrs={"u": 1})
    if which == "narrow":     # float32 / int32 values: NumPy's promotion rules tell a NumPy scalar operand from a Python one
        V, W, S = dict(V, vk="f4"), dict(W, vk="i4"), D.spec([], [], [], vk="i4", base=4)
        return [("v", V), ("w", W), ("s", S)]
    return {"full": [("v", V), ("w", W), ("s", S), ("t", T)], "one": [("w", W)], "lack": [("v", V), ("u", U)],
            "float": [("v", V), ("w", W), ("u", U)], "nan": [("v", V), ("t", T), ("u", U)], "float2": [("t", T), ("s", S)]}[which]


DSNAMES = ["full", "one", "lack", "float", "nan", "float2", "narrow"]


def build_ds(which, shift=0, xlabels=None, ylabels=None):
    ds = Dataset()
    for k, s in ds_specs(which):
        s = dict(s, base=s["base"] + shift)
        if xlabels is not None and "x" in s["dims"]:
            s = dict(s, labels=[xlabels if d == "x" else l for d, l in zip(s["dims"], s["labels"])])
        if ylabels is not None and "y" in s["dims"]:
            s = dict(s, labels=[ylabels if d == "y" else l for d, l in zip(s["dims"], s["labels"])])
        s.pop("nan", None) if (xlabels or ylabels) else None
        ds[k] = D.build_impl(s)
    ds.attrs["title"] = "T" + which
    ds.attrs["hist"] = [1, 2]
    return ds


def shards(tier):
    names = DSNAMES + gen_names(tier)
    joins = list(DSNAMES) + [w for w in gen_names(tier) if len(w.split(":")[1]) <= 3]
    return [{"ds": w, "part": p} for w in names for p in ("index", "reduce", "axisops", "arith")] + [{"part": "join", "k": w} for w in joins]


def _labels(which, dim):
    for k, s in ds_specs(which):
        if dim in s["dims"]:
            return s["labels"][s["dims"].index(dim)], s["kinds"][s["dims"].index(dim)]
    return None, None


def _imenu(lab, kind):
    ab = D.ABSENT_BETWEEN[kind]
    return [["s", lab[0]], ["s", ab], ["l", lab[::-1]], ["l", [lab[0], lab[0]]], ["m", [i % 2 == 0 for i in range(len(lab))]],
            ["sl", lab[1], None, None], ["l", []], ["nps", lab[-1]]]


def _pmenu(n):
    return [["s", 0], ["s", -1], ["s", n], ["l", [n - 1, 0]], ["m", [i % 2 == 1 for i in range(n)]], ["sl", 1, None, None], ["l", []]]


def cases(sh, tier):
    if sh["part"] == "join":
        for c in _join_cases(sh["k"]):
            yield c
        return
    w = sh["ds"]
    dims = []
    for k, s in ds_specs(w):
        for d in s["dims"]:
            if d not in dims:
                dims.append(d)
    if sh["part"] == "index":
        for d in dims:
            lab, kind = _labels(w, d)
            for ix in _imenu(lab, kind):
                for form in ("dict", "axis", "loc", "sel"):
                    yield {"ds": w, "op": ["take", form, "label", {d: ix}]}
            for ix in _pmenu(len(lab)):
                for form in ("dictpos", "axispos", "isel", "iloc"):
                    yield {"ds": w, "op": ["take", form, "position", {d: ix}]}
        if len(dims) == 2:
            (lx, kx), (ly, ky) = _labels(w, dims[0]), _labels(w, dims[1])
            for ix in _imenu(lx, kx)[:5]:
                for iy in _imenu(ly, ky)[:5]:
                    for form in ("dict", "loc", "sel", "tuple"):
                        yield {"ds": w, "op": ["take", form, "label", {dims[0]: ix, dims[1]: iy}]}
            for ix in _pmenu(len(lx))[:4]:
                for iy in _pmenu(len(ly))[:4]:
                    for form in ("dictpos", "isel", "ixtuple"):
                        yield {"ds": w, "op": ["take", form, "position", {dims[0]: ix, dims[1]: iy}]}
    elif sh["part"] == "reduce":
        for f in ("mean", "std", "var", "median", "sum"):
            for i, d in enumerate(dims):
                for axarg in (d, i):
                    for skipna in (None, True):
                        yield {"ds": w, "op": ["reduce", f, axarg, skipna], "dim": d}
            if dims:
                yield {"ds": w, "op": ["reduce", f, "default", None], "dim": dims[0]}
    elif sh["part"] == "axisops":
        for i, d in enumerate(dims):
            lab, kind = _labels(w, d)
            n = len(lab)
            for axarg in (d, i):
                yield {"ds": w, "op": ["sort_axis", axarg], "dim": d}
                for ix, mode in ((lab[::-1], "label"), ([lab[0], lab[0]], "label"), ([n - 1, 0], "position"), ([0], "position"),
                                 ([lab[0], D.ABSENT_BETWEEN[kind]], "label")):
                    yield {"ds": w, "op": ["take_axis", axarg, list(ix), mode], "dim": d}
                ab, hi = D.ABSENT_BETWEEN[kind], D.ABSENT_ABOVE[kind]
                yield {"ds": w, "op": ["take_axis", axarg, [i % 2 == 0 for i in range(len(lab))], "mask"], "dim": d}
                yield {"ds": w, "op": ["take_axis", axarg, [False] * len(lab), "mask"], "dim": d}
                for new in (list(lab), lab[::-1], lab[:1], list(lab) + [hi], [ab, lab[0]], []):
                    for fill in ("nan", -9):
                        yield {"ds": w, "op": ["reindex_axis", axarg, new, fill, False], "dim": d}
                    yield {"ds": w, "op": ["reindex_axis", axarg, new, "nan", True], "dim": d}
                if kind in "if":
                    s_ = sorted(lab)
                    step = 10 if kind == "i" else 1.0
                    for new in (list(lab), [s_[0] + step / 4.0, s_[1]], [s_[0] - step, s_[0], s_[-1] + step], s_[::-1], []):
                        for lr in (None, [-1.0, -2.0]):
                            yield {"ds": w, "op": ["interp_axis", axarg, new, lr], "dim": d}
    else:
        for opn in ("add", "sub", "mul", "div", "pow"):
            for form in ("as", "sa"):
                yield {"ds": w, "op": ["arith", opn, form, 2]}
                yield {"ds": w, "op": ["arith", opn, form, 2.5]}
                if w in ("narrow", "full"):
                    # NumPy scalars as the other operand (on the left NumPy gets the first say: the Dataset has to make it defer)
                    yield {"ds": w, "op": ["arith", opn, form, "np.float64:2.5"]}
                    yield {"ds": w, "op": ["arith", opn, form, "np.int64:3"]}
                    yield {"ds": w, "op": ["arith", opn, form, "np.float32:0.5"]}
                    if opn == "add":
                        yield {"ds": w, "op": ["arith", opn, form, "np.int64:1099511627776"]}
            for other in ("same", "shift", "xdiffer", "ydiffer", "fewer"):
                yield {"ds": w, "op": ["arith", opn, "dd", other]}
        yield {"ds": w, "op": ["arith", "neg", "neg", None]}


def _join_cases(k):
    w = ["full", "lack", "one", "float", "nan", "float2"][k] if isinstance(k, int) else k
    if _labels(w, "x")[0] is None:
        return
    for n in (2, 3):
        for variant in ("equal", "xperm", "xdisj", "yperm"):
            for align in (False, True):
                yield {"join": "stack_ds", "ds": w, "n": n, "variant": variant, "align": align, "keys": "str"}
                yield {"join": "stack_ds", "ds": w, "n": n, "variant": variant, "align": align, "keys": "none"}
                for axarg in ("x", 0):
                    yield {"join": "concatenate_ds", "ds": w, "n": n, "variant": variant, "align": align, "axis": axarg}
        yield {"join": "stack_ds_dict", "ds": w, "n": n, "variant": "equal", "align": False, "keys": "str"}


def state_key(case):
    return case["ds"]


PYOP = {"add": lambda a, b: a + b, "sub": lambda a, b: a - b, "mul": lambda a, b: a * b, "div": lambda a, b: a / b, "pow": lambda a, b: a ** b}


def same_da(got, exp, what, rtol=1e-12):
    """got / exp: DimArray or scalar (exp produced by the DimArray path) -> None or message"""
    if isinstance(exp, DimArray) and exp.ndim > 0:
        if not isinstance(got, DimArray):
            return "{}: expected an array with dims {}, got {}".format(what, exp.dims, common.describe(got))
        w = common.wellformed(got)
        if w:
            return "{}: malformed: {}".format(what, w)
        if tuple(got.dims) != tuple(exp.dims):
            return "{}: dims {} but the DimArray operation gives {}".format(what, got.dims, exp.dims)
        for ga, ea in zip(got.axes, exp.axes):
            if not same_list(py(ga.values), py(ea.values)):
                return "{}: labels of {} are {} but the DimArray operation gives {}".format(what, ga.name, py(ga.values), py(ea.values))
        if not common.same_values(got.values, exp.values, rtol):
            return "{}: values {} but the DimArray operation gives {}".format(what, py(got.values), py(exp.values))
        if got.values.dtype != exp.values.dtype:
            return "{}: values of type {} but the DimArray operation gives {}".format(what, got.values.dtype, exp.values.dtype)
        # "exactly the result of the corresponding DimArray operation": the variable's and its axes' metadata as well
        if common.freeze(dict(got.attrs)) != common.freeze(dict(exp.attrs)):
            return "{}: variable metadata {} but the DimArray operation gives {}".format(what, dict(got.attrs), dict(exp.attrs))
        for ga, ea in zip(got.axes, exp.axes):
            if common.freeze(dict(ga.attrs)) != common.freeze(dict(ea.attrs)):
                return "{}: metadata of axis {} is {} but the DimArray operation gives {}".format(what, ga.name, dict(ga.attrs), dict(ea.attrs))
            if getattr(ga, "tol", None) != getattr(ea, "tol", None):
                return "{}: tolerance of axis {} is {} but the DimArray operation gives {}".format(what, ga.name, getattr(ga, "tol", None), getattr(ea, "tol", None))
        return None
    ev = exp.values[()] if isinstance(exp, DimArray) else exp
    gv = got.values[()] if isinstance(got, DimArray) and got.ndim == 0 else got
    if isinstance(gv, DimArray):
        return "{}: expected a scalar / 0-d variable, got {}".format(what, common.describe(got))
    if not same_scalar(gv, ev, rtol):
        return "{}: {!r} but the DimArray operation gives {!r}".format(what, py(gv), py(ev))
    if isinstance(exp, DimArray) and isinstance(got, DimArray) and common.freeze(dict(got.attrs)) != common.freeze(dict(exp.attrs)):
        # a 0-d variable (it has none of the affected dimensions: "left unchanged") keeps its metadata like any other variable
        return "{}: metadata of the 0-d variable {} expected {}".format(what, dict(got.attrs), dict(exp.attrs))
    return None


def shared_axes(res, what):
    if not isinstance(res, Dataset):
        return "{}: result is {}".format(what, common.describe(res))
    for k in res.keys():
        v = dict.__getitem__(res, k)
        for d in v.dims:
            if d not in res.dims or v.axes[d] is not res.axes[d]:
                return "{}: result variable {} does not share the result dataset's axis {}".format(what, k, d)
    used = set(d for k in res.keys() for d in dict.__getitem__(res, k).dims)
    for d in res.dims:
        if d not in used:
            return None   # an axis kept although unused (e.g. all variables lack it): not constrained here
    return None


def _ixkw(idx, kinds, mode):
    return {d: decode_ix(ix, "i" if mode == "position" else kinds[d]) for d, ix in idx.items()}


def check(case):
    if "join" in case:
        return _check_join(case)
    w = case["ds"]
    ds = build_ds(w)
    r = _judge(ds, case)
    import zlib
    if not r["ok"] or r.get("unspecified") or zlib.crc32(repr(case).encode()) % 3:
        return r
    # the same Dataset operation once more on the SAME Dataset after its axes were relabelled in place (first two labels of every axis swapped
    # through ds.set_axis): Dataset and per-variable results must still agree (nothing remembered from the first call)
    swapped = {}
    shift = zlib.crc32(repr(case).encode()) % 2 == 0      # every second time the labels are SHIFTED instead (a sorted axis stays sorted)
    for ax in list(ds.axes):
        lab = py(ax.values)
        if len(lab) >= 2:
            if shift and ax.values.dtype.kind in "if":
                lab = [l + (1 if ax.values.dtype.kind == "i" else 0.125) for l in lab]
            else:
                lab[0], lab[1] = lab[1], lab[0]
            res = call(ds.set_axis, np.array(lab, dtype=ax.values.dtype), axis=ax.name)
            if isinstance(res, Raised):
                return bad("ds.set_axis({}, axis={!r}) raised {}".format(lab, ax.name, res), klass="unexpected-exception")
            swapped[ax.name] = lab
    if not swapped:
        return r
    r2 = _judge(ds, case)
    if not r2["ok"]:
        return bad("second call on the same Dataset after relabelling in place (now {}): {}".format(swapped, r2.get("detail")), klass=r2.get("klass", "mismatch"))
    return r


def _judge(ds, case):
    w = case["ds"]
    before = common.snap(ds)
    op = case["op"]
    kinds = {}
    for k, s in ds_specs(w):
        for d, kk in zip(s["dims"], s["kinds"]):
            kinds[d] = kk
    dims = list(ds.dims)
    keep_attrs = False
    what = str(op)
    per = {}     # key -> expected (DimArray / scalar / Raised)
    if op[0] == "take":
        form, mode, idx = op[1], op[2], op[3]
        kw = _ixkw(idx, kinds, mode)
        if form in ("dict", "dictpos"):
            kwobj = dict(kw)         # ONE mapping object, used for the Dataset call and, below, for every variable and a second Dataset call
            f = lambda: ds.take(indices=kwobj, indexing=mode)
        elif form in ("axis", "axispos"):
            (d0, v0), = kw.items()
            f = lambda: ds.take(indices=v0, axis=d0, indexing=mode)
        elif form == "loc":
            f = lambda: ds.loc[dict(kw)]
        elif form == "iloc":
            f = lambda: ds.iloc[dict(kw)]
        elif form == "sel":
            f = lambda: ds.sel(**kw)
        elif form == "isel":
            f = lambda: ds.isel(**kw)
        elif form == "tuple":
            f = lambda: ds.loc[tuple(kw[d] for d in dims)]
        elif form == "ixtuple":
            f = lambda: ds.ix[tuple(kw[d] for d in dims)]
        if form in ("dict", "dictpos"):
            first = call(f)
            again = call(f)
            if isinstance(first, Raised) != isinstance(again, Raised) or (not isinstance(first, Raised) and common.snap(first) != common.snap(again)):
                return bad("{}: a second Dataset.take with the SAME indices mapping gives {} but the first gave {}".format(
                    what, common.describe(again), common.describe(first)))
        for k in ds.keys():
            v = ds[k]
            sub = {d: kw[d] for d in v.dims if d in kw}
            per[k] = call(v.take, sub, indexing=mode) if sub else v
        keep_attrs = True
        touched = set(idx)
    elif op[0] == "reduce":
        f_, axarg, skipna = op[1], op[2], op[3]
        kw = {} if skipna is None else {"skipna": skipna}
        d = case["dim"]
        f = (lambda: getattr(ds, f_)(**kw)) if axarg == "default" else (lambda: getattr(ds, f_)(axis=axarg, **kw))
        for k in ds.keys():
            v = ds[k]
            per[k] = call(getattr(v, f_), axis=d, **kw) if d in v.dims else v
        touched = {d}
    elif op[0] in ("sort_axis", "take_axis", "reindex_axis", "interp_axis"):
        d = case["dim"]
        axarg = op[1]
        keep_attrs = True
        if op[0] == "sort_axis":
            f = lambda: ds.sort_axis(axis=axarg)
            g = lambda v: v.sort_axis(axis=d)
        elif op[0] == "take_axis" and op[3] == "mask":
            ix = np.array(op[2], dtype=bool)
            f = lambda: ds.take_axis(ix, axis=axarg)
            g = lambda v: v.take_axis(ix, axis=d)
        elif op[0] == "take_axis":
            ix = D.np_labels(op[2], kinds[d]) if op[3] == "label" else list(op[2])
            f = lambda: ds.take_axis(ix, axis=axarg, indexing=op[3])
            g = lambda v: v.take_axis(ix, axis=d, indexing=op[3])
        elif op[0] == "reindex_axis":
            fill = float("nan") if op[3] == "nan" else op[3]
            new = D.np_labels(op[2], kinds[d]) if op[2] else np.array([], dtype=D.NPDT[kinds[d]])
            f = lambda: ds.reindex_axis(new, axis=axarg, fill_value=fill, raise_error=op[4])
            g = lambda v: v.reindex_axis(new, axis=d, fill_value=fill, raise_error=op[4])
        else:
            kw = {} if op[3] is None else {"left": op[3][0], "right": op[3][1]}
            f = lambda: ds.interp_axis(list(op[2]), axis=axarg, **kw)
            g = lambda v: v.interp_axis(list(op[2]), axis=d, **kw)
        for k in ds.keys():
            v = ds[k]
            per[k] = call(g, v) if d in v.dims else v
        touched = {d}
    elif op[0] == "arith":
        opn, form, other = op[1], op[2], op[3]
        if isinstance(other, str) and other.startswith("np."):
            tname, lit = other[3:].split(":")
            other = getattr(np, tname)(float(lit) if "float" in tname else int(lit))
        if form == "neg":
            f = lambda: -ds
            for k in ds.keys():
                per[k] = call(lambda v: -v, ds[k])
        elif form == "as":
            f = lambda: PYOP[opn](ds, other)
            for k in ds.keys():
                per[k] = call(PYOP[opn], ds[k], other)
        elif form == "sa":
            f = lambda: PYOP[opn](other, ds)
            for k in ds.keys():
                per[k] = call(PYOP[opn], other, ds[k])
        else:
            if other == "same":
                ds2 = build_ds(w)
            elif other == "shift":
                ds2 = build_ds(w, shift=3)
            elif other == "xdiffer":
                lab, kind = _labels(w, "x")
                if lab is None:
                    return unspecified("no-x")
                ds2 = build_ds(w, shift=1, xlabels=[lab[1], D.ABSENT_ABOVE[kind], lab[0]])
            elif other == "ydiffer":
                if "y" not in dims:
                    return unspecified("no-y")
                ds2 = build_ds(w, shift=1, ylabels=["a", "c"])
            else:
                ds2 = build_ds(w, shift=2)
                del ds2[list(ds2.keys())[0]]
            b2 = common.snap(ds2)
            f = lambda: PYOP[opn](ds, ds2)
            for k in ds.keys():
                if k in ds2.keys():
                    per[k] = call(PYOP[opn], ds[k], ds2[k])
        touched = set(dims)
    else:
        raise ValueError(op)
    got = call(f)
    if common.snap(ds) != before:
        return bad("{} modified the dataset".format(what))
    nontrivial = any(set(ds[k].dims) & touched for k in ds.keys())
    must_raise = [k for k, e in per.items() if isinstance(e, Raised)]
    if must_raise:
        if isinstance(got, Raised):
            return ok("raises-like-dimarray", nontrivial)
        return bad("{}: the DimArray operation raises for variable {} ({}) but the Dataset operation returned {}".format(
            what, must_raise[0], per[must_raise[0]], common.describe(got)))
    if isinstance(got, Raised):
        return bad("{} raised {} although every per-variable DimArray operation succeeds".format(what, got), klass="unexpected-exception")
    m = shared_axes(got, what)
    if m:
        return bad(m)
    if sorted(got.keys()) != sorted(per):
        return bad("{}: result keys {} expected {}".format(what, sorted(got.keys()), sorted(per)))
    for k, e in per.items():
        m = same_da(dict.__getitem__(got, k), e, "{}: variable {}".format(what, k))
        if m:
            return bad(m)
    if keep_attrs and common.freeze(dict(got.attrs)) != common.freeze(dict(ds.attrs)):
        return bad("{}: dataset attrs {} not carried over (expected {})".format(what, dict(got.attrs), dict(ds.attrs)))
    return ok(op[0], nontrivial)


def _check_join(case):
    w, n, variant = case["ds"], case["n"], case["variant"]
    lab, kind = _labels(w, "x")
    dss = []
    for i in range(n):
        xl = yl = None
        if i > 0:
            if variant == "xperm":
                xl = lab[::-1]
            elif variant == "xdisj":
                xl = [D.BASE[kind][3 + (j + i) % 3] for j in range(len(lab))]
            elif variant == "yperm":
                yl = ["a", "b"]
        dss.append(build_ds(w, shift=10 * i, xlabels=xl, ylabels=yl))
    befores = [common.snap(d) for d in dss]
    keys = ["e%d" % i for i in range(n)] if case.get("keys") == "str" else None
    align = case["align"]
    per = {}
    if case["join"].startswith("stack_ds"):
        if case["join"] == "stack_ds_dict":
            f = lambda: common.da.stack_ds(dict(zip(keys, dss)), axis="s", align=align)
        else:
            f = lambda: common.da.stack_ds(dss, axis="s", keys=keys, align=align)
        for k in dss[0].keys():
            per[k] = call(common.da.stack, [d[k] for d in dss], axis="s", keys=keys, align=align)
        what = "stack_ds({} x {}, variant={}, align={})".format(n, w, variant, align)
    else:
        axarg = case["axis"]
        # an integer axis is a position among the DATASET's dimensions, like in every other Dataset method (take_axis, sort_axis, reductions) and in
        # concatenate_ds's own align=True branch (earlier versions of this check counted it as ambiguous, see DESIGN section 7)
        cdim = axarg if isinstance(axarg, str) else list(dss[0].dims)[axarg]
        if any(cdim not in dss[0][k].dims for k in dss[0].keys()):
            call(common.da.concatenate_ds, dss, axis=axarg, align=align)
            return unspecified("concat-lacking-dim")
        f = lambda: common.da.concatenate_ds(dss, axis=axarg, align=align)
        for k in dss[0].keys():
            per[k] = call(common.da.concatenate, [d[k] for d in dss], axis=cdim, align=align)
        what = "concatenate_ds({} x {}, axis={!r}, variant={}, align={})".format(n, w, axarg, variant, align)
    got = call(f)
    for d, b in zip(dss, befores):
        if common.snap(d) != b:
            return bad(what + " modified an input dataset")
    must_raise = [k for k, e in per.items() if isinstance(e, Raised)]
    if must_raise:
        if isinstance(got, Raised):
            return ok("raises-like-dimarray")
        return bad("{}: joining variable {} as DimArrays raises ({}) but the Dataset operation returned {}".format(
            what, must_raise[0], per[must_raise[0]], common.describe(got)))
    if isinstance(got, Raised):
        return bad("{} raised {} although every per-variable join succeeds".format(what, got), klass="unexpected-exception")
    m = shared_axes(got, what)
    if m:
        return bad(m)
    if sorted(got.keys()) != sorted(per):
        return bad("{}: result keys {} expected {}".format(what, sorted(got.keys()), sorted(per)))
    for k, e in per.items():
        m = same_da(dict.__getitem__(got, k), e, "{}: variable {}".format(what, k))
        if m:
            return bad(m)
    return ok(case["join"], True)


def snippet(case):
    return "from mc.props import c14\nprint(c14.check({!r}))".format(case)


def triage_sig(case, detail, klass):
    import re
    o = case.get("op") or [case.get("join")]
    return (klass, o[0], str(o[1])[:12] if len(o) > 1 else "", case["ds"], re.sub(r"[-0-9.]+", "#", detail)[:120])


CLASSIFIERS = {}
