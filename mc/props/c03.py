"""C03 - assignment writes exactly the addressed cells.

clause -> observable -> oracle
  a[idx]=v / put / .ix[idx]=v / masks change exactly the cells the same index reads -> a.values afterwards
        -> reference positions (ref.resolve, shared with C01/C02) x broadcast RHS, every other cell byte-identical
  labels, dims, metadata untouched                                                 -> snapshot minus values
  read-back of the same index returns what was written                             -> spell.get after the write
  inplace=False leaves the operand unchanged and returns the modified copy         -> operand snapshot
  cast=True widens so that no assigned value is truncated or lost                  -> value recoverable per cell
Not covered: RHS arrays together with repeated positions (NumPy leaves the winner unspecified), cast=False
with a value of another kind (NumPy's own coercion), an index whose read raises (only "raises or leaves
the array unchanged" is required).
"""
import itertools
import numpy as np
from mc import common, domains as D, ref as R, spell
from mc.engine import ok, bad, unspecified
from mc.common import call, Raised, DimArray, same_scalar, py
from mc.props import c01

ID = "C03"
VARIANT_SWEEP = True      # thorough tier: every case on every history variant of its array (see mc/domains.py VSHIFT)
TITLE = "assignment writes exactly the addressed cells"
RULE = ("product of (float/int/bool/object arrays 1-3D with mixed-kind axes) x (index menus of C01/C02 in label and "
        "position mode + N-d boolean masks) x RHS (scalar, array of the selection's shape, broadcastable row, 0-d) x "
        "spellings (a[]=, put, put dict/axis=, .loc[]=, .ix[]=, .iloc[]=, indexing='position') x inplace; cast table over "
        "(bool,int,float,object,float32,int32,int8,uint8) x (bool,int,float,nan,str and values the narrow types cannot hold: 2**40, 300, -1, "
        "1e300, 0.1, 16777217; uint64 vs negative values); assignments that must FAIL leave the array - dtype included - unchanged; non-trivial = the index addresses at least one cell or raises")
ASSUMPTIONS = ["reference positions from mc/ref.py (same resolver as C01/C02)", "NumPy broadcasting of the RHS to the selection shape"]
NAMES = ["x", "y", "z"]
LENS = [3, 2, 3]


def bounds(tier):
    return {"max_ndim": 3, "axis_lengths": LENS, "value_kinds": ["f", "i", "b", "O"]}


def lmenu(lab, kind, small=False):
    m = c01.menu(lab, kind, small)
    m = m + [["sl", lab[1], None, None], ["sl", None, lab[1], None]]
    return m


def pmenu(n, small=False):
    return c01.pmenu(n, small) + [["sl", None, None, 2], ["sl", -2, None, None]]


def _spec(variants, vk, k=0, opt=None):
    nd = len(variants)
    labels = [D.labels_of(kd, LENS[i], od) for i, (kd, od) in enumerate(variants)]
    return D.spec(NAMES[:nd], labels, [kd for kd, od in variants], vk=vk, var=D.VARIANTS[k % len(D.VARIANTS)],
                  attrs={"units": "m", "hist": [1, 2]}, opt=opt)


def shards(tier):
    out = []
    k = 0
    for v in c01.AXV:
        for vk in "fibO":
            out.append({"v": [v], "vk": vk, "k": k, "part": "idx"}); k += 1
    pairs = list(itertools.product(c01.AXV, repeat=2))
    pairs = pairs[::3] if tier == "quick" else pairs
    for i, v in enumerate(pairs):
        out.append({"v": list(v), "vk": "fibO"[i % 4], "k": k, "part": "idx"}); k += 1
    trip = list(itertools.product(c01.AXV, repeat=3))
    trip = [trip[(i * 50 + i) % len(trip)] for i in range(6 if tier == "quick" else 40)]
    for i, v in enumerate(trip):
        out.append({"v": list(v), "vk": "fi"[i % 2], "k": k, "part": "idx"}); k += 1
    for akind in ["b", "i", "f", "O", "f4", "i4", "i1", "u1", "u8"]:
        out.append({"part": "cast", "akind": akind})
    for v in ([[("i", "shuf"), ("O", "inc")], [("f", "dec"), ("i", "shuf"), ("O", "shuf")]]):
        out.append({"v": v, "vk": "f", "k": 1, "part": "ndmask"})
        out.append({"v": v, "vk": "i", "k": 2, "part": "ndmask"})
    return out


RHS = ["scalar", "array", "row", "zerod"]
LSP = ["setitem", "put", "putdict", "putaxis", "locset"]
PSP = ["ixset", "ilocset", "putpos"]
OPT_LSP = ["ixset", "locset", "putlab"]            # spellings on an array whose own mode is 'position'
OPT_PSP = ["setitem", "put", "ilocset", "putdict"]


def _applicable(sp, ixs, nd):
    nf = spell.nonfull(ixs)
    if sp == "putaxis":
        return len(nf) == 1
    return True


def cases(sh, tier):
    if sh["part"] == "cast":
        for c in _cast_cases(sh["akind"]):
            yield c
        return
    v = [tuple(x) for x in sh["v"]]
    nd = len(v)
    s = _spec(v, sh["vk"], sh["k"])
    so = _spec(v, sh["vk"], sh["k"], opt="position")
    if sh["part"] == "ndmask":
        shape = D.shape_of(s)
        n = int(np.prod(shape))
        for pat in range(0, 2 ** min(n, 12), 1 if n <= 6 else 37):
            mask = [(pat >> (i % 12)) & 1 == 1 for i in range(n)]
            for rhs in ("scalar", "array"):
                for sp in ("setitem", "put", "putF", "dimask"):
                    yield {"a": s, "mask": mask, "rhs": rhs, "sp": sp, "part": "ndmask"}
        return
    small = nd >= 3 or (nd == 2 and tier == "quick")
    lm = [lmenu(s["labels"][i], s["kinds"][i], small) for i in range(nd)]
    pm = [pmenu(len(s["labels"][i]), small) for i in range(nd)]
    for mode, menus, sps in (("label", lm, LSP), ("position", pm, PSP)):
        c = 0
        for ixs in itertools.product(*menus):
            ixs = list(ixs)
            c += 1
            ok_sps = [sp for sp in sps if _applicable(sp, ixs, nd)]
            for r, rhs in enumerate(RHS):
                if nd == 1:
                    use = ok_sps
                else:
                    use = [ok_sps[(c + r) % len(ok_sps)]]
                for sp in use:
                    if sp in ("put", "putdict", "putaxis", "putpos"):
                        yield {"a": s, "ix": ixs, "sp": sp, "mode": mode, "rhs": rhs, "inplace": (c + r) % 2 == 0}
                        if nd == 1:
                            yield {"a": s, "ix": ixs, "sp": sp, "mode": mode, "rhs": rhs, "inplace": (c + r) % 2 == 1}
                    else:
                        yield {"a": s, "ix": ixs, "sp": sp, "mode": mode, "rhs": rhs, "inplace": True}
            # an array whose OWN indexing mode is 'position' (built while indexing.by = 'position', the option restored afterwards): a[..] =
            # and put are positional, .ix[..] = toggles to labels, .loc / .iloc keep their meaning
            if nd <= 2 and c % 3 == 0:
                osps = OPT_LSP if mode == "label" else OPT_PSP
                sp = osps[(c // 3) % len(osps)]
                rhs = RHS[(c // 3) % len(RHS)]
                yield {"a": so, "ix": ixs, "sp": sp, "mode": mode, "rhs": rhs, "inplace": (c // 3) % 2 == 0}


CAST_VALUES = {"bool": True, "int": 7, "float": 2.5, "nan": float("nan"), "str": "q", "intarr": [7, 8], "floatarr": [2.5, float("nan")],
               # values that the narrow dtypes (float32, int32, int8, uint8) cannot hold: the array must be widened WITHIN the kind
               "big": 2 ** 40, "i300": 300, "neg": -1, "huge": 1e300, "tenth": 0.1, "odd24": 16777217, "bigarr": [7, 2 ** 40], "tentharr": [0.1, 2.5]}
CAST_KIND = {"bool": "b", "int": "i", "float": "f", "nan": "f", "str": "U", "intarr": "i", "floatarr": "f",
             "big": "i", "i300": "i", "neg": "i", "huge": "f", "tenth": "f", "odd24": "i", "bigarr": "i", "tentharr": "f"}


def _fits(v, dt):
    """are the assigned values exactly representable in dtype dt? (oracle side: round trip through dt)"""
    arr = np.asarray(v)
    if arr.dtype.kind not in "iuf" or dt.kind not in "iuf":
        return True
    with np.errstate(all="ignore"):
        try:
            back = arr.astype(dt).astype(arr.dtype if arr.dtype.kind == "f" else object)
        except (OverflowError, ValueError):
            return False
    return all((x == y) or (x != x and y != y) for x, y in zip(np.ravel(back).tolist(), np.ravel(arr).tolist()))


def _cast_cases(akind):
    s = D.spec(["x"], [[30, 10, 20]], ["i"], vk=akind, attrs={"units": "m"})
    for vname in CAST_VALUES:
        for ix in (["s", 10], ["l", [20, 30]], ["m", [True, False, True]], ["full"], ["sl", 10, None, None]):
            for sp in ("put", "putF", "setitem", "valset"):
                if sp == "valset" and ix[0] != "full":
                    continue
                if vname.endswith("arr") and ix[0] not in ("l", "m"):
                    continue
                for cast in ((True, False) if sp in ("put", "putF") else (None,)):
                    yield {"a": s, "ix": [ix], "sp": sp, "v": vname, "cast": cast, "part": "cast"}
    # a full-shape N-d boolean mask (the path of fillna / setna) with a scalar value, on a 2-D array: same widening rules, same untouched cells
    s2 = D.spec(["x", "y"], [[30, 10], ["b", "a", "c"]], ["i", "O"], vk=akind, attrs={"units": "m"})
    for vname in CAST_VALUES:
        if vname.endswith("arr"):
            continue
        for sp in ("put", "putF", "setitem"):
            for cast in ((True, False) if sp in ("put", "putF") else (None,)):
                for mk in ("some", "none", "all"):
                    yield {"a": s2, "sp": sp, "v": vname, "cast": cast, "part": "cast", "ndmask": mk}
    # assignments that FAIL (position out of range, absent label, wrong number of values) with cast=True: nothing is assigned, so the array -
    # dtype included - stays what it was ("leaves every other cell ... untouched")
    for vname in ("float", "str", "floatarr"):
        for how in ("pos_out_of_range", "absent_label", "too_many_values"):
            yield {"a": s, "part": "castfail", "how": how, "v": vname}


def state_key(case):
    return case["a"]


def _rhs(kind, shape, vk):
    """RHS value for a selection of the given shape; values distinct from anything stored"""
    if vk == "O":
        base = lambda k: "w%d" % k
    elif vk == "b":
        base = lambda k: bool(k % 2 == 0)
    elif vk == "i":
        base = lambda k: 9000 + k
    else:
        base = lambda k: 9000.5 + k
    dt = {"O": object, "b": bool, "i": np.int64, "f": np.float64}[vk]
    if kind == "scalar":
        return base(0)
    if kind == "zerod":
        arr = np.empty((), dtype=dt); arr[()] = base(1)
        return arr
    if kind == "array":
        arr = np.empty(shape, dtype=dt)
        for k, pos in enumerate(itertools.product(*[range(n) for n in shape])):
            arr[pos] = base(k + 2)
        return arr
    if kind == "row":
        if not shape:
            return base(3)
        arr = np.empty(shape[-1:], dtype=dt)
        for k in range(shape[-1]):
            arr[k] = base(k + 50)
        return arr
    raise ValueError(kind)


def _nonvalue_snap(a):
    sn = common.snap(a)
    return (sn[0], sn[1][1], sn[2], sn[3])   # class, shape, axes, attrs (values & dtype excluded)


def check(case):
    if case.get("part") == "cast":
        return _check_cast(case)
    if case.get("part") == "castfail":
        s = case["a"]
        a = D.build_impl(s)
        before = common.snap(a)
        v = CAST_VALUES[case["v"]]
        val = np.array(v) if isinstance(v, list) else v
        if case["how"] == "pos_out_of_range":
            ret = call(a.put, 7, val, indexing="position", cast=True)
        elif case["how"] == "absent_label":
            ret = call(a.put, 25, val, cast=True)
        else:
            ret = call(a.put, [10, 20, 30], np.array([val] * 2 if not isinstance(v, list) else list(v) * 2, dtype=object if isinstance(v, str) else None)[:2], cast=True)
        if not isinstance(ret, Raised):
            return unspecified("castfail-accepted")
        if common.snap(a) != before:
            return bad("put({}, {!r}, cast=True) raised {} but changed the array all the same: now {}".format(case["how"], v, ret, common.describe(a)))
        return ok("castfail-unchanged", True)
    if case.get("part") == "ndmask":
        return _check_ndmask(case)
    s = case["a"]
    ra = D.build_ref(s)
    a = D.build_impl(s)
    before = common.snap(a)
    nonval = _nonvalue_snap(a)
    mode = case["mode"]
    try:
        alts = R.resolve_all(ra, s["kinds"], case["ix"], mode=mode)
    except R.RefRaises:
        got = call(spell.put, a, case["ix"], 1, case["sp"], s["kinds"], mode=mode, **({} if case["sp"] in ("setitem", "locset", "ixset", "ilocset") else {"inplace": case["inplace"]}))
        if common.snap(a) == before:
            return ok("raises-or-unchanged")
        return bad("index whose read raises IndexError modified the array{}: {}".format(" (and raised)" if isinstance(got, Raised) else "", common.describe(a)))
    except R.Unspecified:
        return unspecified()
    if len(alts) != 1:
        return unspecified("ambiguous-index")
    perdim = alts[0]
    lists = [([p] if k == "drop" else p) for k, p in perdim]
    selshape = tuple(len(p) for k, p in perdim if k == "keep")
    repeats = any(len(set(l)) != len(l) for l in lists)
    if repeats and case["rhs"] in ("array", "row"):
        return unspecified("repeated-positions-array-rhs")
    rhs = _rhs(case["rhs"], selshape, s["vk"])
    rb = np.broadcast_to(np.asarray(rhs, dtype=ra.vals.dtype), selshape)
    expect = ra.vals.copy()
    keepidx = [i for i, (k, p) in enumerate(perdim) if k == "keep"]
    ncell = 0
    for outpos in R.all_positions([len(l) for l in lists]):
        dst = tuple(lists[i][outpos[i]] for i in range(len(lists)))
        src = tuple(outpos[i] for i in keepidx)
        expect[dst] = rb[src] if src else rb[()]
        ncell += 1
    kw = {}
    putfam = case["sp"] in ("put", "putdict", "putaxis", "putpos", "putlab")
    if putfam:
        kw["inplace"] = case["inplace"]
    ret = call(spell.put, a, case["ix"], rhs, case["sp"], s["kinds"], mode=mode, **kw)
    if isinstance(ret, Raised):
        return bad("assignment raised {} (selection shape {}, rhs {})".format(ret, selshape, case["rhs"]), klass="unexpected-exception")
    if putfam and not case["inplace"]:
        if common.snap(a) != before:
            return bad("inplace=False modified the operand: {}".format(common.describe(a)))
        target = ret
        if not isinstance(target, DimArray):
            return bad("put(inplace=False) returned {}".format(common.describe(ret)))
    else:
        target = a
        if ret is not None and putfam:
            return bad("put(inplace=True) returned {}".format(common.describe(ret)))
    if _nonvalue_snap(target) != nonval:
        return bad("labels / dims / attrs / shape changed by assignment: {}".format(common.describe(target)))
    if not common.same_values(target.values, expect):
        return bad("values after assignment {} expected {} (index {}, rhs {})".format(py(target.values), py(expect), case["ix"], case["rhs"]))
    if target.values.dtype.kind != ra.vals.dtype.kind:
        return bad("dtype kind changed from {} to {} by a same-kind assignment".format(ra.vals.dtype.kind, target.values.dtype.kind))
    # read-back through the matching read spelling
    rsp = "getitem" if mode == "label" else "takepos"
    if mode == "label":
        back = call(target.take, spell.dec_tuple(case["ix"], s["kinds"]), indexing="label")
    else:
        back = call(target.take, spell.dec_tuple(case["ix"], s["kinds"], "position"), indexing="position")
    if isinstance(back, Raised):
        return bad("read-back raised {}".format(back))
    bv = back.values if isinstance(back, DimArray) else np.asarray(back)
    if not common.same_values(bv, rb if selshape else rb[()]):
        return bad("read-back {} differs from what was written {}".format(py(bv), py(rb)))
    return ok("written" if ncell else "empty-selection", nontrivial=ncell > 0)


def _check_ndmask(case):
    s = case["a"]
    ra = D.build_ref(s)
    a = D.build_impl(s)
    before = common.snap(a)
    nonval = _nonvalue_snap(a)
    shape = ra.shape
    mask = np.array(case["mask"], dtype=bool).reshape(shape)
    n = int(mask.sum())
    rhs = _rhs("scalar", (), s["vk"]) if case["rhs"] == "scalar" else _rhs("array", (n,), s["vk"])
    expect = ra.vals.copy()
    k = 0
    for pos in R.all_positions(shape):
        if mask[pos]:
            expect[pos] = rhs if case["rhs"] == "scalar" else rhs[k]
            k += 1
    sp = case["sp"]
    m = DimArray(mask, axes=[ax.copy() for ax in a.axes]) if sp == "dimask" else mask
    if sp in ("setitem", "dimask"):
        def f():
            a[m] = rhs
        ret = call(f)
        target = a
    elif sp == "put":
        ret = call(a.put, m, rhs)
        target = a
    else:
        ret = call(a.put, m, rhs, inplace=False)
        target = ret
        if not isinstance(ret, Raised) and common.snap(a) != before:
            return bad("put(mask, inplace=False) modified the operand")
    if isinstance(ret, Raised):
        return bad("N-d mask assignment raised {}".format(ret), klass="unexpected-exception")
    if not isinstance(target, DimArray):
        return bad("no array returned: {}".format(common.describe(target)))
    if _nonvalue_snap(target) != nonval:
        return bad("labels / dims / attrs changed by N-d mask assignment")
    if not common.same_values(target.values, expect):
        return bad("values after N-d mask assignment {} expected {}".format(py(target.values), py(expect)))
    return ok("ndmask", nontrivial=n > 0)


def _check_cast(case):
    s = case["a"]
    ra = D.build_ref(s)
    a = D.build_impl(s)
    before = common.snap(a)
    nonval = _nonvalue_snap(a)
    v = CAST_VALUES[case["v"]]
    vkind = CAST_KIND[case["v"]]
    akind = "i" if ra.vals.dtype.kind == "u" else ra.vals.dtype.kind
    sp, cast = case["sp"], case["cast"]
    if case.get("ndmask"):
        mask = {"some": np.array([[True, False, False], [False, True, True]]), "none": np.zeros((2, 3), bool), "all": np.ones((2, 3), bool)}[case["ndmask"]]
        pos = [tuple(int(i) for i in p) for p in np.argwhere(mask)]
        ixd = (mask,)
        allpos = [tuple(int(i) for i in p) for p in np.argwhere(np.ones((2, 3), bool))]
    else:
        perdim = R.resolve_all(ra, s["kinds"], case["ix"])[0]
        pos = perdim[0][1] if perdim[0][0] == "keep" else [perdim[0][1]]
        ixd = spell.dec_tuple(case["ix"], s["kinds"])
        allpos = list(range(len(ra.labels[0])))
    val = np.array(v) if isinstance(v, list) else v
    if case.get("ndmask") and sp in ("put", "putF"):
        ret = call(a.put, ixd[0], val, cast=cast, inplace=(sp == "put")); target = a if sp == "put" else ret
    elif sp == "put":
        ret = call(a.put, ixd, val, cast=cast); target = a
    elif sp == "putF":
        ret = call(a.put, ixd, val, cast=cast, inplace=False); target = ret
    elif sp == "setitem":
        def f():
            a[ixd[0]] = val
        ret = call(f); target = a
    else:
        def f():
            a.values = val
        ret = call(f); target = a
    widening = cast or sp == "valset"
    same = (akind == vkind) or akind == "O" or (akind == "f" and vkind == "i")
    if not widening and (not same or not _fits(v, ra.vals.dtype)):
        return unspecified("cast-false-other-kind")   # NumPy's own coercion / error: property silent
    if isinstance(ret, Raised):
        return bad("assignment of {} {!r} into {} array (cast={}) raised {}".format(case["v"], v, akind, cast, ret), klass="unexpected-exception")
    if sp == "putF" and common.snap(a) != before:
        return bad("put(inplace=False, cast={}) modified the operand".format(cast))
    if not isinstance(target, DimArray) or _nonvalue_snap(target) != nonval:
        return bad("labels / dims / attrs changed: {}".format(common.describe(target)))
    res = target.values
    vals = list(v) if isinstance(v, list) else [v] * len(pos)
    for k, p in enumerate(pos):
        if not same_scalar(res[p], vals[k]) or (isinstance(vals[k], str) != isinstance(py(res[p]), str)):
            return bad("assigned value {!r} not recoverable at position {}: stored {!r} (array kind {}, cast={}, result dtype {})".format(
                vals[k], p, py(res[p]), akind, cast, res.dtype))
        if isinstance(vals[k], float) and not isinstance(vals[k], bool) and vals[k] == vals[k] and py(res[p]) != vals[k]:
            return bad("float value truncated: {!r} stored as {!r}".format(vals[k], py(res[p])))
    for p in allpos:
        if p not in pos and (not same_scalar(res[p], ra.vals[p]) or isinstance(py(res[p]), str) != isinstance(py(ra.vals[p]), str)):
            return bad("untouched cell {} changed from {!r} to {!r}".format(p, py(ra.vals[p]), py(res[p])))
    return ok("cast-%s<-%s" % (akind, vkind))


def snippet(case):
    return "from mc.props import c03\nprint(c03.check({!r}))".format(case)


def triage_sig(case, detail, klass):
    import re
    if case.get("part"):
        return (klass, case["part"], case.get("sp"), case.get("v"), str(case.get("cast")), case["a"]["vk"], re.sub(r"[-0-9.]+", "#", detail)[:80])
    tags = sorted(set(ix[0] + ("[]" if ix[0] in ("l", "nd") and not ix[1] else "") for ix in case["ix"]))
    return (klass, case["mode"], case["sp"], case["rhs"], case["a"]["vk"], ",".join(tags), re.sub(r"[-0-9.]+", "#", detail)[:70])


CLASSIFIERS = {}
