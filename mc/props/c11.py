"""C11 - flatten, unflatten and reshape group dimensions losslessly.

clause -> observable -> oracle
  flatten(dims) -> one grouped axis named by the comma-joined member names      -> dims
  its i-th entry <-> i-th combination of member labels in row-major order of the LISTED dims
                                                                               -> group.axes, group.values (tuples, compared
                                                                                  up to str(): NumPy stringifies mixed tuples)
  value at a grouped position == original value at that combination of labels  -> cell-by-cell through the layout map
  insert=p puts the grouped axis at position p (default position: not stated -> any position accepted)
  unflatten restores the member axes exactly; flatten then unflatten preserves every coordinate
  reshape with comma-joined names = grouping / ungrouping + transposes + singleton insertions / removals
  reducing over a tuple of dims == reducing over the flattened group
Not covered: dimension names containing commas or semicolons that are not groups.
"""
import itertools
import numpy as np
from mc import common, domains as D, ref as R
from mc.engine import ok, bad, unspecified
from mc.common import call, Raised, DimArray, MultiAxis, py, same_scalar, same_list
from mc.props import c10

ID = "C11"
OEO = True      # a third of the cases get a second pass on the same array after an in-place edit (engine._oeo)
VARIANT_SWEEP = True      # thorough tier: every case on every history variant of its array (see mc/domains.py VSHIFT)
TITLE = "flatten / unflatten / reshape group dimensions losslessly"
RULE = ("product of (arrays 1-4D with axes of different kinds and lengths, plus variants with a singleton dimension) x "
        "(every non-empty ordered subset of dims x container {tuple,list,varargs,set} x insert in {None,0..} x reverse; unflatten all / "
        "one; reshape to every ordered partition of every permutation of the dims, with 0-1 new names and dropped singletons, also "
        "from already-grouped arrays; tuple reductions vs flattened-group reductions); non-trivial = at least two dimensions are "
        "grouped or the layout changes")
ASSUMPTIONS = ["layout map (row-major unravel of grouped positions) in mc/props/c11.py is the reference", "grouped tuple labels compared up to str()"]
NAMES = c10.NAMES
AXDEF = dict(c10.AXDEF, t=("i", [7, 5]))
SINGLE = c10.SINGLE


def bounds(tier):
    return {"max_ndim": 4, "containers": ["tuple", "list", "varargs", "set"], "insert": "None, 0..ndim-k"}


def bases(tier):
    out = []
    k = 0
    for nd in range(1, 5):
        dims = NAMES[:nd]
        two = {3: [(0, 2), (0, 1)], 4: [(0, 2), (1, 3)]}.get(nd, [])     # two singleton dims: drop one, keep the other
        for ss in [()] + ([(i,) for i in range(nd)] if nd <= 3 else [(1,)]) + two:
            labels, kinds = [], []
            for i, d in enumerate(dims):
                kk, ll = (SINGLE if i in ss else AXDEF)[d]
                kinds.append(kk); labels.append(ll)
            out.append(D.spec(dims, labels, kinds, vk=["f", "i", "f4", "i4"][k % 4], base=6, var=D.VARIANTS[k % len(D.VARIANTS)],
                              attrs={"units": "m"}))
            k += 1
    return out


def shards(tier):
    B = bases(tier)
    out = []
    for i in range(len(B)):
        for part in ("flatten", "reshape", "reduce"):
            out.append({"b": i, "part": part})
    return out


def _compositions(seq):
    """all ways to cut seq into consecutive non-empty groups"""
    n = len(seq)
    for cuts in itertools.product([0, 1], repeat=n - 1):
        groups, cur = [], [seq[0]]
        for i, c in enumerate(cuts):
            if c:
                groups.append(cur); cur = [seq[i + 1]]
            else:
                cur.append(seq[i + 1])
        groups.append(cur)
        yield groups


def cases(sh, tier):
    s = bases(tier)[sh["b"]]
    dims = s["dims"]
    nd = len(dims)
    if sh["part"] == "flatten":
        yield {"a": s, "op": "flatten", "sub": None, "cont": "none", "insert": None, "reverse": False}
        for k in range(1, nd + 1):
            for sub in itertools.permutations(dims, k):
                sub = list(sub)
                for cont in ("tuple", "list", "varargs", "set"):
                    if cont == "set" and sub != [d for d in dims if d in sub]:
                        continue
                    inserts = [None] + list(range(nd - k + 1))
                    if nd == 4 and tier == "quick" and cont in ("list", "varargs"):
                        inserts = [None, 0]
                    for ins in inserts:
                        yield {"a": s, "op": "flatten", "sub": sub, "cont": cont, "insert": ins, "reverse": False}
                    if cont == "tuple":
                        # negative insert positions count from the end, as for newaxis / numpy.expand_dims: -1 = after the last kept dimension
                        for ins in range(-1, -(nd - k + 2), -1):
                            yield {"a": s, "op": "flatten", "sub": sub, "cont": cont, "insert": ins, "reverse": False}
                if k < nd:
                    yield {"a": s, "op": "flatten", "sub": sub, "cont": "tuple", "insert": 0, "reverse": True}
                    yield {"a": s, "op": "flatten", "sub": sub, "cont": "tuple", "insert": None, "reverse": True}
                # unflatten after an explicit-insert flatten
                for ins in ([0] if nd - k == 0 else [0, nd - k]):
                    yield {"a": s, "op": "unflatten", "sub": sub, "insert": ins, "how": "all"}
                    yield {"a": s, "op": "unflatten", "sub": sub, "insert": ins, "how": "name"}
                    yield {"a": s, "op": "unflatten", "sub": sub, "insert": ins, "how": "pos"}
    elif sh["part"] == "reshape":
        sing = [d for d, l in zip(dims, s["labels"]) if len(l) == 1]
        perms = list(itertools.permutations(dims))
        if nd == 4 and tier == "quick":
            perms = perms[::3]
        for pm in perms:
            for groups in _compositions(list(pm)):
                tgt = [",".join(g) for g in groups]
                yield {"a": s, "op": "reshape", "target": tgt, "pre": None}
                for pos in range(len(tgt) + 1):
                    yield {"a": s, "op": "reshape", "target": tgt[:pos] + ["new"] + tgt[pos:], "pre": None}
                # from an already grouped array
                if nd >= 2:
                    for pre in ([dims[0], dims[-1]], list(dims[::-1])[:2]):
                        yield {"a": s, "op": "reshape", "target": tgt, "pre": pre}
                        for pos in range(len(tgt) + 1):      # ... combined with the insertion of a new singleton dimension
                            yield {"a": s, "op": "reshape", "target": tgt[:pos] + ["new"] + tgt[pos:], "pre": pre}
        # dropping a singleton dimension
        for d in sing:
            rest = [x for x in dims if x != d]
            for pm in itertools.permutations(rest):
                for groups in _compositions(list(pm)) if pm else [[]]:
                    yield {"a": s, "op": "reshape", "target": [",".join(g) for g in groups], "pre": None}
    else:
        for k in (2, 3):
            if k > nd:
                continue
            for sub in itertools.permutations(dims, k):
                for f in ("sum", "mean", "max"):
                    yield {"a": s, "op": "reduce", "sub": list(sub), "f": f}


def state_key(case):
    return case["a"]


def loose_eq(a, b):
    a, b = py(a), py(b)
    # (earlier versions of this check accepted a stringified member label - ('10', 'a') for (10, 'a') - "up to str()": the i-th entry must BE the
    # combination of member labels, a label of another type does not find the element again)
    return R.eq(a, b) and isinstance(a, str) == isinstance(b, str)


def check_layout(got, layout, src, what, check_pos=True):
    """layout: list of ('plain', dim) | ('group', [dims]) | ('new', name).  src: RA (input)."""
    exp_dims = [(e[1] if e[0] != "group" else ",".join(e[1])) for e in layout]
    if not isinstance(got, DimArray):
        return "{}: expected an array with dims {}, got {}".format(what, exp_dims, common.describe(got))
    if check_pos:
        if list(got.dims) != exp_dims:
            return "{}: dims {} expected {}".format(what, got.dims, exp_dims)
    else:
        if sorted(got.dims) != sorted(exp_dims):
            return "{}: dims {} expected some arrangement of {}".format(what, got.dims, exp_dims)
        layout = [layout[exp_dims.index(d)] for d in got.dims]
    w = common.wellformed(got)
    if w:
        return "{}: malformed: {}".format(what, w)
    sizes = []
    for i, e in enumerate(layout):
        ax = got.axes[i]
        if e[0] == "plain":
            lab = src.labels[src.dims.index(e[1])]
            if isinstance(ax, MultiAxis) or not same_list(py(ax.values), lab):
                return "{}: axis {} has labels {} expected {}".format(what, e[1], py(ax.values), lab)
            sizes.append(len(lab))
        elif e[0] == "new":
            if ax.size != 1:
                return "{}: new dimension {} has size {}".format(what, e[1], ax.size)
            sizes.append(1)
        else:
            members = e[1]
            if len(members) == 1 and not isinstance(ax, MultiAxis):
                # a "group" of one dimension: named by that dimension, its entries are the member's labels - a plain axis says exactly that
                lab = src.labels[src.dims.index(members[0])]
                if ax.name != members[0] or not same_list(py(ax.values), lab):
                    return "{}: single-member group {} has name {!r} labels {} expected {}".format(what, members, ax.name, py(ax.values), lab)
                sizes.append(len(lab))
                continue
            if not isinstance(ax, MultiAxis):
                return "{}: axis {} is not a grouped axis".format(what, ax.name)
            if [m.name for m in ax.axes] != members:
                return "{}: grouped axis members {} expected {}".format(what, [m.name for m in ax.axes], members)
            mlabs = [src.labels[src.dims.index(m)] for m in members]
            for m, ml in zip(ax.axes, mlabs):
                if not same_list(py(m.values), ml):
                    return "{}: member axis {} has labels {} expected {}".format(what, m.name, py(m.values), ml)
            combos = list(itertools.product(*mlabs))   # row-major order of the listed dims
            vals = py(ax.values)
            if len(vals) != len(combos):
                return "{}: grouped axis has {} entries expected {}".format(what, len(vals), len(combos))
            for q, (v, c) in enumerate(zip(vals, combos)):
                vv = v if isinstance(v, (tuple, list)) else (v,)
                if len(vv) != len(c) or not all(loose_eq(x, y) for x, y in zip(vv, c)):
                    return "{}: grouped label {} is {!r} expected {!r} (row-major order of {})".format(what, q, v, c, members)
            sizes.append(len(combos))
    if tuple(got.values.shape) != tuple(sizes):
        return "{}: shape {} expected {}".format(what, got.values.shape, sizes)
    used = set()
    for pos in R.all_positions(sizes):
        srcpos = [0] * src.ndim
        for i, e in enumerate(layout):
            if e[0] == "plain":
                srcpos[src.dims.index(e[1])] = pos[i]
            elif e[0] == "group":
                msz = [len(src.labels[src.dims.index(m)]) for m in e[1]]
                rem = pos[i]
                idx = []
                for sz in msz[::-1]:
                    idx.append(rem % sz); rem //= sz
                for m, q in zip(e[1], idx[::-1]):
                    srcpos[src.dims.index(m)] = q
        v = src.vals[tuple(srcpos)]
        if not same_scalar(got.values[pos], v):
            return "{}: value at {} is {!r} but the input holds {!r} at {}".format(
                what, pos, py(got.values[pos]), py(v), {d: src.labels[i][srcpos[i]] for i, d in enumerate(src.dims)})
    if common.freeze(dict(got.attrs)) != common.freeze(src.attrs):
        return "{}: attrs {} expected {}".format(what, dict(got.attrs), src.attrs)
    return None


def _flatten_call(a, sub, cont, insert, reverse):
    kw = {}
    if insert is not None:
        kw["insert"] = insert
    if reverse:
        kw["reverse"] = True
    if sub is None:
        return a.flatten(**kw)
    if cont == "tuple":
        return a.flatten(tuple(sub), **kw)
    if cont == "list":
        return a.flatten(list(sub), **kw)
    if cont == "set":
        return a.flatten(set(sub), **kw)
    return a.flatten(*sub, **kw)


def _layout_flatten(dims, sub, insert):
    rest = [("plain", d) for d in dims if d not in sub]
    pos = insert if insert is not None else 0
    if pos < 0:
        pos += len(rest) + 1
    return rest[:pos] + [("group", list(sub))] + rest[pos:]


def check(case):
    s = case["a"]
    ra = D.build_ref(s)
    a = D.build_impl(s)
    before = common.snap(a)
    dims = list(ra.dims)
    op = case["op"]
    if op == "flatten":
        sub = case["sub"] if case["sub"] is not None else dims
        eff = [d for d in dims if d not in sub] if case["reverse"] else list(sub)
        got = call(_flatten_call, a, case["sub"], case["cont"], case["insert"], case["reverse"])
        if common.snap(a) != before:
            return bad("flatten modified its operand")
        if isinstance(got, Raised):
            return bad("flatten({}, container={}, insert={}, reverse={}) on dims {} raised {}".format(
                case["sub"], case["cont"], case["insert"], case["reverse"], dims, got), klass="unexpected-exception")
        m = check_layout(got, _layout_flatten(dims, eff, case["insert"]), ra,
                         "flatten({}, insert={}, reverse={})".format(case["sub"], case["insert"], case["reverse"]),
                         check_pos=case["insert"] is not None)
        if m:
            return bad(m)
        # "the value at a grouped position equals the original value at that combination of labels" - also through the indexing API: ONE
        # position along the grouped axis of an array that keeps other dimensions
        gname = ",".join(eff)
        if isinstance(got, DimArray) and got.ndim >= 2 and gname in got.dims and got.shape[list(got.dims).index(gname)] >= 1:
            gi = list(got.dims).index(gname)
            for k in (0, got.shape[gi] - 1):
                sub = call(lambda: got.ix[(slice(None),) * gi + (k,)])
                if isinstance(sub, Raised):
                    return bad("position {} along the grouped axis {!r} of the flattened array (dims {}) raised {}".format(k, gname, got.dims, sub), klass="unexpected-exception")
                want = np.take(got.values, k, axis=gi)
                sv = sub.values if isinstance(sub, DimArray) else np.asarray(sub)
                if sv.shape != want.shape or not common.same_values(sv, want):
                    return bad("position {} along the grouped axis {!r}: values {} expected {}".format(k, gname, common.py(sv), common.py(want)))
                if isinstance(sub, DimArray) and tuple(sub.dims) != tuple(d for d in got.dims if d != gname):
                    return bad("position {} along the grouped axis {!r}: dims {} expected the other dimensions of {}".format(k, gname, sub.dims, got.dims))
        return ok("flatten", len(eff) >= 2)
    if op == "unflatten":
        sub, ins = case["sub"], case["insert"]
        f = call(a.flatten, tuple(sub), insert=ins)
        if isinstance(f, Raised):
            return bad("flatten({}, insert={}) raised {}".format(sub, ins, f), klass="unexpected-exception")
        fsnap = common.snap(f)
        gname = ",".join(sub)
        if case["how"] == "all":
            got = call(f.unflatten)
        elif case["how"] == "name":
            got = call(f.unflatten, gname)
        else:
            got = call(f.unflatten, list(f.dims).index(gname) if isinstance(f, DimArray) and gname in f.dims else 0)
        if isinstance(got, Raised):
            return bad("unflatten after flatten({}, insert={}) raised {}".format(sub, ins, got), klass="unexpected-exception")
        if common.snap(f) != fsnap or common.snap(a) != before:
            return bad("unflatten modified its operand")
        rest = [("plain", d) for d in dims if d not in sub]
        layout = rest[:ins] + [("plain", d) for d in sub] + rest[ins:]
        m = check_layout(got, layout, ra, "unflatten({}) after flatten({}, insert={})".format(case["how"], sub, ins))
        if m:
            return bad(m)
        if isinstance(got, DimArray) and any(isinstance(ax, MultiAxis) for ax in got.axes):
            return bad("unflatten left a grouped axis")
        # the restored array is edited in place (first label of the first member axis): the flattened array it came from is another array -
        # its grouped labels and what a second unflatten restores stay what they were
        d0 = sub[0]
        lab0 = ra.labels[dims.index(d0)]
        if lab0 and got is not f:     # (a group of one dimension is that dimension: unflatten has nothing to undo and may return the array itself)
            newl = D.EXTRA[s["kinds"][dims.index(d0)]]
            e = call(lambda: got.axes[d0].__setitem__(0, newl))
            if isinstance(e, Raised):
                return bad("relabelling the restored array in place raised {}".format(e), klass="unexpected-exception")
            if common.snap(f) != fsnap:
                return bad("relabelling the array returned by unflatten in place changed the flattened array it came from")
            again = call(f.unflatten)
            m = check_layout(again, layout, ra, "second unflatten, after the first restored array was relabelled in place ({}[0] = {!r})".format(d0, newl))
            if m:
                return bad(m)
        return ok("unflatten", len(sub) >= 2)
    if op == "reshape":
        src = a
        if case["pre"]:
            src = call(a.flatten, tuple(case["pre"]), insert=0)
            if isinstance(src, Raised):
                return bad("pre-flatten raised {}".format(src), klass="unexpected-exception")
        ssnap = common.snap(src)
        tgt = case["target"]
        got = call(src.reshape, *tgt) if len(tgt) != 1 else call(src.reshape, tgt)
        if common.snap(src) != ssnap or common.snap(a) != before:
            return bad("reshape modified its operand")
        if isinstance(got, Raised):
            return bad("reshape{} from dims {} raised {}".format(tuple(tgt), tuple(src.dims), got), klass="unexpected-exception")
        layout = []
        for t in tgt:
            if t == "new":
                layout.append(("new", t))
            elif "," in t:
                layout.append(("group", t.split(",")))
            else:
                layout.append(("plain", t))
        if not tgt:
            if isinstance(got, DimArray) and got.ndim == 0 and same_scalar(got.values[()], ra.vals.reshape(-1)[0]):
                return ok("reshape-0d", False)
            return bad("reshape to () gave {}".format(common.describe(got)))
        m = check_layout(got, layout, ra, "reshape{} from {}".format(tuple(tgt), tuple(src.dims)))
        if m:
            return bad(m)
        # second step from the reached state: unflatten() undoes EVERY group of the reshaped array (two groups at once occur only here), and
        # reshaping back to the original dimensions gives the original layout
        if any(e[0] == "group" for e in layout):
            gsnap = common.snap(got)
            flat = [("plain", d) for e in layout for d in (e[1] if e[0] == "group" else [e[1]])]
            back = call(got.unflatten)
            if isinstance(back, Raised):
                return bad("unflatten() after reshape{} raised {}".format(tuple(tgt), back), klass="unexpected-exception")
            m = check_layout(back, [("new", e[1]) if e[1] == "new" else e for e in flat], ra, "unflatten() after reshape{}".format(tuple(tgt)))
            if m:
                return bad(m)
            if "new" not in tgt and len(flat) == len(a.dims):
                home = call(got.reshape, *a.dims)
                if isinstance(home, Raised):
                    return bad("reshape{} back to {} raised {}".format(tuple(tgt), tuple(a.dims), home), klass="unexpected-exception")
                m = check_layout(home, [("plain", d) for d in a.dims], ra, "reshape{} and back to {}".format(tuple(tgt), tuple(a.dims)))
                if m:
                    return bad(m)
            if common.snap(got) != gsnap:
                return bad("unflatten / reshape modified the reshaped array they were applied to")
        return ok("reshape", True)
    if op == "reduce":
        sub, f = case["sub"], case["f"]
        r1 = call(getattr(a, f), axis=tuple(sub))
        fl = call(a.flatten, tuple(sub), insert=0)
        if isinstance(fl, Raised):
            return bad("flatten({}, insert=0) raised {}".format(sub, fl), klass="unexpected-exception")
        r2 = call(getattr(fl, f), axis=0)
        if isinstance(r1, Raised) or isinstance(r2, Raised):
            return bad("{}(axis={}) -> {} ; flattened -> {}".format(f, tuple(sub), common.describe(r1), common.describe(r2)), klass="unexpected-exception")
        if common.snap(a) != before:
            return bad("reduction modified its operand")
        if isinstance(r1, DimArray) != isinstance(r2, DimArray):
            return bad("{} over tuple {} gives {} but over the flattened group {}".format(f, sub, common.describe(r1), common.describe(r2)))
        if isinstance(r1, DimArray):
            if r1.dims != r2.dims or not all(same_list(py(x.values), py(y.values)) for x, y in zip(r1.axes, r2.axes)) \
                    or not common.same_values(r1.values, r2.values, 1e-12):
                return bad("{} over tuple {} = {} differs from the flattened-group reduction {}".format(f, sub, common.describe(r1), common.describe(r2)))
        elif not same_scalar(r1, r2, 1e-12):
            return bad("{} over tuple {} = {!r} differs from flattened {!r}".format(f, sub, py(r1), py(r2)))
        return ok("reduce-tuple", True)
    raise ValueError(op)


def snippet(case):
    return "from mc.props import c11\nprint(c11.check({!r}))".format(case)


def triage_sig(case, detail, klass):
    import re
    return (klass, case["op"], case.get("cont"), "ins=%s" % case.get("insert"), "rev=%s" % case.get("reverse"), "nd=%d" % len(case["a"]["dims"]),
            re.sub(r"[-0-9.]+", "#", detail)[:90])


CLASSIFIERS = {}
