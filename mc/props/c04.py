"""C04 - arithmetic aligns operands by dimension name and by label.

clause -> observable -> oracle
  dims of a op b = a's dims then b's new ones                       -> res.dims
  shared dimension carries the union of both label sets, each once  -> label set + no duplicates
  non-shared dimension keeps its labels                             -> label list
  value at every coordinate = a[c] op b[c] where both define it, NaN elsewhere, broadcast by name
                                                                    -> coordinate-wise recomputation from the OPERANDS
  scalar operand (either side) / ndarray right operand = NumPy on .values, axes unchanged
  operands are not modified (cross-check for C15)                   -> snapshots
Not covered: label ORDER on shared dimensions (C06 states it), result dtype, options other than default.
"""
import itertools
import numpy as np
from mc import common, domains as D, ref as R
from mc.engine import ok, bad, unspecified
from mc.common import call, Raised, DimArray, py, same_scalar, same_list

ID = "C04"
VARIANT_SWEEP = True      # thorough tier: every case on every history variant of its array (see mc/domains.py VSHIFT)
TITLE = "arithmetic aligns by name and label"
RULE = ("all ordered pairs of a pool of arrays (0-3 dims over x,y,z [t thorough] in every dimension order; per-dimension "
        "label vectors equal / permuted / overlapping / nested / disjoint / int-vs-float, stored inc / dec / shuffled) "
        "x 6 operators, plus scalar-left, scalar-right and ndarray-right forms; non-trivial = operands differ in "
        "dims or in the label vector of a shared dimension, or a scalar/ndarray operand is involved")
ASSUMPTIONS = ["numpy ufuncs on scalars are the oracle for the arithmetic itself",
               "values positive and exactly representable; default options op.reindex=True, op.broadcast=True"]
OPS = {"add": np.add, "sub": np.subtract, "mul": np.multiply, "div": np.true_divide, "floordiv": np.floor_divide, "pow": np.power}
PYOP = {"add": lambda a, b: a + b, "sub": lambda a, b: a - b, "mul": lambda a, b: a * b, "div": lambda a, b: a / b,
        "floordiv": lambda a, b: a // b, "pow": lambda a, b: a ** b}

LAB = {
    "x": {"inc": ("i", [10, 20, 30]), "dec": ("i", [30, 20, 10]), "ovl": ("i", [20, 30, 40]), "nest": ("i", [10, 20]),
          "disj": ("i", [40, 50]), "shuf": ("i", [30, 10, 20]), "flt": ("f", [10.0, 20.0, 30.0]), "fovl": ("f", [20.0, 30.5]),
          "one": ("i", [20]), "empty": ("i", [])},
    "y": {"inc": ("O", ["a", "b"]), "dec": ("O", ["b", "a"]), "ovl": ("O", ["b", "c"]), "shuf": ("O", ["c", "a", "b"])},
    "z": {"inc": ("f", [0.5, 1.5]), "dec": ("f", [1.5, 0.5]), "ovl": ("f", [1.5, 2.5])},
    "t": {"inc": ("i", [1, 2]), "dec": ("i", [2, 1])},
    # a dimension that happens to be called like a metadata entry the library looks at before operating
    "grid_mapping": {"inc": ("i", [1, 2, 3]), "shuf": ("i", [3, 1, 2, 4])},
}


def bounds(tier):
    return {"dims_pool": ["x", "y", "z"] if tier == "quick" else ["x", "y", "z", "t"], "max_ndim": 3 if tier == "quick" else 4,
            "ops": sorted(OPS)}


def pool(tier):
    P = []

    def add(dims, variants):
        kinds, labels = [], []
        for d, v in zip(dims, variants):
            k, l = LAB[d][v]
            kinds.append(k); labels.append(l)
        cells = int(np.prod([len(l) for l in labels])) if labels else 1
        var = D.VARIANTS[len(P) % len(D.VARIANTS)] if dims and cells else "fresh"
        vk = "i" if (len(P) % 3 == 0 and cells <= 9) else "f"
        P.append(D.spec(dims, labels, kinds, vk=vk, base=len(P) + 2, var=var, enc="small"))

    add([], [])
    xs = ["inc", "dec", "ovl", "nest", "disj", "shuf", "flt", "fovl", "one"]
    for v in xs:
        add(["x"], [v])
    for perm in itertools.permutations(range(4)):      # every storage order of 4 labels (interior permutations included)
        LAB["x"]["p%d%d%d%d" % perm] = ("i", [[10, 20, 30, 40][q] for q in perm])
        add(["x"], ["p%d%d%d%d" % perm])
    for v in LAB["y"]:
        add(["y"], [v])
    for v in LAB["z"]:
        add(["z"], [v])
    x2 = ["inc", "ovl", "shuf", "dec"] if tier == "quick" else xs
    for vx in x2:
        for vy in (["inc", "shuf"] if tier == "quick" else list(LAB["y"])):
            add(["x", "y"], [vx, vy]); add(["y", "x"], [vy, vx])
    for vx in (["inc", "shuf"] if tier == "quick" else ["inc", "shuf", "ovl", "flt"]):
        for vz in (["inc", "dec"] if tier == "quick" else list(LAB["z"])):
            add(["x", "z"], [vx, vz]); add(["z", "x"], [vz, vx])
    for vy in ["inc", "ovl"]:
        for vz in ["inc", "ovl"]:
            add(["y", "z"], [vy, vz]); add(["z", "y"], [vz, vy])
    for perm in itertools.permutations(["x", "y", "z"]):
        for vx in (["inc", "shuf"] if tier == "quick" else ["inc", "shuf", "ovl", "dec"]):
            vs = {"x": vx, "y": "inc" if vx == "inc" else "dec", "z": "dec" if vx == "inc" else "ovl"}
            add(list(perm), [vs[d] for d in perm])
    if tier != "quick":
        add(["t"], ["inc"]); add(["t"], ["dec"])
        for perm in list(itertools.permutations(["x", "y", "z", "t"]))[::2]:
            vs = {"x": "shuf", "y": "dec", "z": "inc", "t": "dec"}
            add(list(perm), [vs[d] for d in perm])
        add(["t", "x"], ["inc", "ovl"]); add(["y", "t"], ["shuf", "inc"])
    # (appended last, so that the positions of everything above stay what they were)
    add(["x"], ["empty"]); add(["x", "y"], ["empty", "inc"]); add(["y", "x"], ["shuf", "empty"])
    add(["grid_mapping"], ["inc"]); add(["grid_mapping"], ["shuf"])
    # two LONG axes (12 labels decreasing, 9 increasing): size thresholds behind which a "fast path for long ordered axes" could hide
    LAB["x"]["long_dec"] = ("i", list(range(120, 0, -10)))
    LAB["x"]["long_inc"] = ("i", list(range(10, 100, 10)))
    add(["x"], ["long_dec"]); add(["x"], ["long_inc"])
    return P


def shards(tier):
    P = pool(tier)
    return [{"i": i} for i in range(len(P))]


def cases(sh, tier):
    P = pool(tier)
    a = P[sh["i"]]
    for j, b in enumerate(P):
        for op in sorted(OPS):
            yield {"a": a, "b": b, "op": op, "form": "aa"}
        # operate - edit one operand in place - operate again on the same two objects
        yield {"a": a, "b": b, "op": "add", "form": "aa", "again": "assign_a"}
        yield {"a": a, "b": b, "op": "sub", "form": "aa", "again": "relabel_b"}
        # an earlier, unrelated library call that FAILED half-way (whatever it switched temporarily must be back in place)
        if j % 3 == 0:
            for pre in ("ds_op_fails", "ix_fails", "take_fails"):
                yield {"a": a, "b": b, "op": "mul", "form": "aa", "pre": pre}
    for op in sorted(OPS):
        yield {"a": a, "op": op, "form": "as", "s": 2}
        yield {"a": a, "op": op, "form": "sa", "s": 2}
        yield {"a": a, "op": op, "form": "as", "s": 2.5}
        yield {"a": a, "op": op, "form": "sa", "s": 2.5}
        # the scalar is a NumPy scalar (what a.mean(), a.values[0] or np.float64(...) give), on either side
        yield {"a": a, "op": op, "form": "as", "s": 2.5, "st": "np"}
        yield {"a": a, "op": op, "form": "sa", "s": 2.5, "st": "np"}
        yield {"a": a, "op": op, "form": "sa", "s": 2, "st": "np"}
        if a["vk"] == "f":      # single-precision values with a Python scalar: "the NumPy result on .values" stays single precision
            yield {"a": dict(a, vk="f4"), "op": op, "form": "as", "s": 2.5}
            yield {"a": dict(a, vk="f4"), "op": op, "form": "sa", "s": 2.5}
        yield {"a": a, "op": op, "form": "an"}
    # the two values for which the power is defined whatever the other operand is: base 1 (1 ** nan == 1) and exponent 0 (nan ** 0 == 1).
    # At a coordinate that only ONE operand has, the result must still be NaN (the other operand has no value there)
    if len(a["dims"]) == 1 and 1 <= sh["i"] <= 9:
        for b in P[1:10]:
            yield {"a": dict(a, enc="one"), "b": b, "op": "pow", "form": "aa"}
            yield {"a": a, "b": dict(b, enc="zero"), "op": "pow", "form": "aa"}


def state_key(case):
    return [case["a"], case.get("b")]


def _expected_cell(va, vb, op):
    if va is None or vb is None:
        return float("nan")
    return OPS[op](float(va), float(vb))   # small exact numbers: int and float arithmetic agree


def check(case):
    sa = case["a"]
    A, ra = D.build_impl(sa), D.build_ref(sa)
    op, form = case["op"], case["form"]
    snapA = common.snap(A)
    if form in ("as", "sa", "an"):
        sc = case.get("s")
        if case.get("st") == "np":
            sc = np.float64(sc) if isinstance(sc, float) else np.int64(sc)
        if form == "as":
            got = call(PYOP[op], A, sc); exp = OPS[op](ra.vals, case["s"])
        elif form == "sa":
            got = call(PYOP[op], sc, A); exp = OPS[op](case["s"], ra.vals)
        else:
            other = (np.arange(ra.vals.size).reshape(ra.vals.shape) % 3 + 1).astype(float)
            got = call(PYOP[op], A, other); exp = OPS[op](ra.vals, other)
        if common.snap(A) != snapA:
            return bad("operand modified by {} ({})".format(op, form))
        if isinstance(got, Raised):
            return bad("{} form {} raised {}".format(op, form, got), klass="unexpected-exception")
        if ra.ndim == 0 and not isinstance(got, DimArray):
            m = None if same_scalar(got, exp[()], 1e-13) else "scalar result {!r} expected {!r}".format(py(got), py(exp))
        else:
            m = D.compare(got, R.RA(ra.dims, ra.labels, exp), rtol=1e-13)
        return bad(m) if m else ok("scalar-" + form)
    sb = case["b"]
    B, rb = D.build_impl(sb), D.build_ref(sb)
    snapB = common.snap(B)
    if case.get("pre"):
        _failing_call(case["pre"])
    got = call(PYOP[op], A, B)
    if common.snap(A) != snapA or common.snap(B) != snapB:
        return bad("operand modified by a {} b".format(op))
    if isinstance(got, Raised):
        return bad("a {} b raised {}".format(op, got), klass="unexpected-exception")
    r = _verify(got, ra, rb, op)
    if not r["ok"] or not case.get("again"):
        return r
    # the SAME two objects combined once more after one of them was edited in place through the public API: the answer must follow the
    # operands as they are now (nothing remembered from the first operation)
    if case["again"] == "assign_a":
        if ra.ndim == 0 or not ra.vals.size:
            return r
        key = tuple(l[0] for l in ra.labels)
        res = call(A.__setitem__, key if len(key) > 1 else key[0], 7)
        if isinstance(res, Raised):
            return r
        v2 = ra.vals.copy(); v2[(0,) * ra.ndim] = 7
        ra = R.RA(ra.dims, ra.labels, v2)
        what = "after a[{}] = 7".format(key)
    else:
        if rb.ndim == 0 or len(rb.labels[0]) < 2:
            return r
        # swap the first two labels and replace the last one by a label that neither operand had: another order AND another label set
        l0 = list(rb.labels[0]); l0[0], l0[1] = l0[1], l0[0]
        fresh = D.EXTRA[sb["kinds"][0]]
        if fresh not in l0 and (sb["dims"][0] not in ra.dims or fresh not in ra.labels[ra.dims.index(sb["dims"][0])]):
            l0[-1] = fresh
        res = call(B.set_axis, D.np_labels(l0, sb["kinds"][0]), axis=0)
        if isinstance(res, Raised):
            return bad("b.set_axis({}, axis=0) raised {}".format(l0, res), klass="unexpected-exception")
        rb = R.RA(rb.dims, [l0] + [list(l) for l in rb.labels[1:]], rb.vals)
        what = "after b.set_axis({}, axis=0)".format(l0)
    got2 = call(PYOP[op], A, B)
    if isinstance(got2, Raised):
        return bad("second a {} b ({}) raised {}".format(op, what, got2), klass="unexpected-exception")
    r2 = _verify(got2, ra, rb, op)
    if not r2["ok"]:
        return bad("second a {} b, {}: {}".format(op, what, r2.get("detail")))
    return ok("again-" + case["again"], nontrivial=True)


def _failing_call(which):
    """a library call on OTHER objects that raises half-way through (its exception is swallowed, as a user's try/except would)"""
    from mc.common import Dataset, Axis
    x = DimArray(np.arange(3.), axes=[Axis(np.array([1, 2, 3]), "p")])
    if which == "ds_op_fails":       # Dataset - Dataset where one variable holds strings: the per-variable subtraction raises
        ds = Dataset()
        ds["v"] = x
        ds["s"] = DimArray(np.array(["u", "v", "w"], dtype=object), axes=[Axis(np.array([1, 2, 3]), "p")])
        r = call(lambda: ds - ds)
    elif which == "ix_fails":
        r = call(lambda: x.ix[99])
    else:
        r = call(x.take, {"nodim": 1})
    return r


def _verify(got, ra, rb, op):
    dims = list(ra.dims) + [d for d in rb.dims if d not in ra.dims]
    if not dims:
        e = OPS[op](ra.vals[()], rb.vals[()])
        v = got.values[()] if isinstance(got, DimArray) else got
        return ok("0d") if same_scalar(v, e, 1e-13) else bad("0-d result {!r} expected {!r}".format(py(v), py(e)))
    if not isinstance(got, DimArray):
        return bad("expected DimArray with dims {}, got {}".format(dims, common.describe(got)))
    if list(got.dims) != dims:
        return bad("dims {} expected {}".format(got.dims, dims))
    w = common.wellformed(got)
    if w:
        return bad("malformed result: " + w)
    nontrivial = tuple(ra.dims) != tuple(rb.dims)
    for i, d in enumerate(dims):
        lab = py(got.axes[i].values)
        la = ra.labels[ra.dims.index(d)] if d in ra.dims else None
        lb = rb.labels[rb.dims.index(d)] if d in rb.dims else None
        if la is not None and lb is not None:
            want = set(R._hashable(l) for l in la) | set(R._hashable(l) for l in lb)
            have = [R._hashable(l) for l in lab]
            if len(have) != len(set(have)) or set(have) != want:
                return bad("labels of shared dim {!r} are {} expected the union of {} and {} (each once)".format(d, lab, la, lb))
            if not same_list(la, lb):
                nontrivial = True
        else:
            src = la if la is not None else lb
            if not same_list(lab, src):
                return bad("labels of dim {!r} are {} expected {}".format(d, lab, src))
    ma, mb = R.coordmap(ra), R.coordmap(rb)
    vals = got.values
    for pos in R.all_positions(vals.shape):
        coord = {d: R._hashable(py(got.axes[i].values[pos[i]])) for i, d in enumerate(dims)}
        va = ma.get(frozenset((d, coord[d]) for d in ra.dims))
        vb = mb.get(frozenset((d, coord[d]) for d in rb.dims))
        e = _expected_cell(va, vb, op)
        if not same_scalar(vals[pos], e, rtol=1e-13):
            return bad("value at {} is {!r} expected {!r} (a={!r}, b={!r}, op={})".format(coord, py(vals[pos]), py(e), py(va), py(vb), op))
    return ok("aligned" if nontrivial else "identical-axes", nontrivial=nontrivial)


def snippet(case):
    return ("from mc import domains as D\nfrom mc.props.c04 import PYOP\nA = D.build_impl({!r})\n".format(case["a"])
            + ("B = D.build_impl({!r})\nprint(PYOP[{!r}](A, B))".format(case["b"], case["op"]) if case["form"] == "aa"
               else "# form {} scalar {}\n".format(case["form"], case.get("s"))))


def triage_sig(case, detail, klass):
    import re
    return (klass, case["form"], case["op"] if case["form"] != "aa" else "", re.sub(r"[-0-9.]+", "#", detail)[:90])


def _pow_identity(case, detail):
    import re
    return (case.get("op") == "pow" and case.get("form") == "aa" and not case.get("again") and not case.get("pre")
            and (case["a"].get("enc") == "one" or case["b"].get("enc") == "zero")
            and re.search(r"is 1(\.0)? expected nan", detail) is not None)


CLASSIFIERS = {"pow_identity_one_sided": _pow_identity}
