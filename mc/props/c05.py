"""C05 - every produced array is well-formed and history-independent.

PART 1  constructor equivalence (E1)
  all documented ways of specifying the same axes build equal arrays (label lists + dims, (name, labels) pairs, Axis objects,
  Axes instance, dict + dims, dict without dims (documented form, insertion order), labels=, nested dict / list, zeros / ones / empty / nans (+ _like),
  DimArray(dimarray), 1-D shortcuts; values as lists and as ndarrays); data whose shape disagrees with the axes, duplicate or
  empty or non-str dimension names are rejected with an exception.
PART 2  well-formedness of EVERY constructed array (E3 monitor + union alphabet)
  DimArray.__init__ is wrapped from the harness (no source change); while every entry of mc/alphabet.py runs on three operand
  variants, each array leaving the constructor - intermediates included - and every returned array / Dataset variable must
  have one 1-D axis of the right length per dimension and distinct non-empty str names.
PART 3  history independence (E2, BFS over programs on two registers)
  after any sequence of producers (r1 = op(r0)), cache-filling queries and sanctioned in-place relabelling / renaming /
  assignment on either register, every register answers a probe set exactly like a FRESHLY CONSTRUCTED array with the same
  values, labels and dims.  De-duplication key = observable snapshot of both registers + hidden signature (_monotonic of every
  axis, MultiAxis cache filled or not, identity pattern of Axis objects across registers): states equal in all of these have
  identical futures, so merging them is sound without assuming the property.
Not covered: dimension names containing commas, pandas / larry conversions.
"""
import itertools
from collections import OrderedDict
import numpy as np
from mc import common, domains as D, ref as R, alphabet
from mc.engine import ok, bad, unspecified
from mc.common import call, Raised, DimArray, Dataset, Axis, Axes, MultiAxis, da, py, same_list

ID = "C05"
TITLE = "every produced array is well-formed and history-independent"
RULE = ("part 1: product of logical arrays (0-3D, int/float/str labels) x ~20 constructor forms x values as list/ndarray, plus ~40 "
        "malformed constructions that must be rejected; part 2: union alphabet (~175 operation x argument-class pairs) x 3 operand "
        "variants under a constructor monitor; part 3: breadth-first search over programs of producers / queries / in-place "
        "mutators on two registers (~45 events) from 3 seeds, probe set of 12 read-only operations compared with a freshly "
        "constructed twin after every transition; non-trivial = the transition changed a register or filled a cache")
ASSUMPTIONS = ["fresh twin is built through the public constructor from the members' values / labels / dims (grouped axes by flatten of a fresh array)",
               "hidden signature (_monotonic, MultiAxis._values, Axis identity pattern) is part of the de-duplication key only"]


def bounds(tier):
    return {"bfs_depth": 2 if tier == "quick" else 4, "alphabet": len(alphabet.OPS), "registers": 2, "seeds": "3 fresh + the same 3 after every query was asked once"}


# ------------------------------------------------------------------------------------------
# part 1: constructor forms
# ------------------------------------------------------------------------------------------
LOGICAL = [
    D.spec([], [], [], vk="f", base=3),
    D.spec(["x"], [[30, 10, 20]], ["i"], vk="f", base=1), D.spec(["x"], [["b", "a"]], ["O"], vk="i", base=2), D.spec(["x"], [[0.5, 1.5]], ["f"], vk="f", base=2),
    D.spec(["x", "y"], [[30, 10, 20], ["b", "a"]], ["i", "O"], vk="f", base=1), D.spec(["y", "x"], [[1.5, 0.5], [10, 20, 30]], ["f", "i"], vk="i", base=1),
    D.spec(["x", "y"], [[10, 20], [3, 4]], ["i", "i"], vk="f", base=5),    # square: order cannot be inferred from the shape
    D.spec(["x", "y", "z"], [[30, 10, 20], ["b", "a"], [0.5, 1.5, 2.5, 3.5]], ["i", "O", "f"], vk="f", base=1),
    D.spec(["x"], [[]], ["i"], vk="f", base=1),
]


def _vals(ra, as_list):
    return ra.vals.tolist() if as_list else ra.vals.copy()


def _labs(ra, as_list):
    return [list(l) if as_list else D.np_labels(l, "O" if l and isinstance(l[0], str) else ("f" if l and isinstance(l[0], float) else "i")) for l in ra.labels]


def _nested(ra):
    def rec(pos):
        d = len(pos)
        if d == ra.ndim:
            return ra.vals[tuple(pos)].item()
        return OrderedDict((ra.labels[d][i], rec(pos + [i])) for i in range(len(ra.labels[d])))
    return rec([])


FORMS = {
    "lists+dims": lambda ra, L: DimArray(_vals(ra, L), axes=_labs(ra, L), dims=list(ra.dims)),
    "lists+dims_tuple": lambda ra, L: DimArray(_vals(ra, L), _labs(ra, L), tuple(ra.dims)),
    "pairs": lambda ra, L: DimArray(_vals(ra, L), axes=[(d, l) for d, l in zip(ra.dims, _labs(ra, L))]),
    "axis_objects": lambda ra, L: DimArray(_vals(ra, L), axes=[Axis(l, d) for d, l in zip(ra.dims, _labs(ra, L))]),
    "axes_instance": lambda ra, L: DimArray(_vals(ra, L), axes=Axes([Axis(l, d) for d, l in zip(ra.dims, _labs(ra, L))])),
    "dict+dims": lambda ra, L: DimArray(_vals(ra, L), axes=dict(zip(ra.dims, _labs(ra, L))), dims=list(ra.dims)),
    "dict_nodims": lambda ra, L: DimArray(_vals(ra, L), axes=OrderedDict(zip(ra.dims, _labs(ra, L)))),
    "labels=": lambda ra, L: DimArray(_vals(ra, L), labels=_labs(ra, L), dims=list(ra.dims)),
    "from_dimarray": lambda ra, L: DimArray(DimArray(_vals(ra, L), axes=_labs(ra, L), dims=list(ra.dims))),
    "array()": lambda ra, L: da.array(_vals(ra, L), axes=_labs(ra, L), dims=list(ra.dims)),
    "nested_dict": lambda ra, L: DimArray(_nested(ra), dims=list(ra.dims)),
    "from_nested": lambda ra, L: DimArray.from_nested(_nested(ra), dims=list(ra.dims)),
    "nested_list+labels": lambda ra, L: DimArray.from_nested(ra.vals.tolist(), labels=_labs(ra, True), dims=list(ra.dims)),
    "1d_axes=labels": lambda ra, L: DimArray(_vals(ra, L), axes=_labs(ra, L)[0], dims=ra.dims[0]),
    "1d_tuple": lambda ra, L: DimArray(_vals(ra, L), (ra.dims[0], _labs(ra, L)[0])),
    "fill_zeros": lambda ra, L: _filled(da.zeros(axes=[(d, l) for d, l in zip(ra.dims, _labs(ra, L))]), ra),
    "fill_ones_dims": lambda ra, L: _filled(da.ones(axes=_labs(ra, L), dims=list(ra.dims)), ra),
    "fill_empty_axisobj": lambda ra, L: _filled(da.empty(axes=[Axis(l, d) for d, l in zip(ra.dims, _labs(ra, L))]), ra),
    "fill_nans": lambda ra, L: _filled(da.nans(axes=[(d, l) for d, l in zip(ra.dims, _labs(ra, L))]), ra),
    "fill_zeros_like": lambda ra, L: _filled(da.zeros_like(DimArray(_vals(ra, L), axes=_labs(ra, L), dims=list(ra.dims))), ra),
    "fill_values_none": lambda ra, L: _filled(DimArray(axes=[(d, l) for d, l in zip(ra.dims, _labs(ra, L))]), ra),
    "from_json": lambda ra, L: DimArray.from_json(DimArray(_vals(ra, L), axes=_labs(ra, L), dims=list(ra.dims)).to_json()),
}


def _filled(a, ra):
    if a.values.dtype.kind != "f" and ra.vals.dtype.kind == "f":
        a.values = a.values.astype(float)
    a.values[...] = ra.vals
    return a


def _form_applies(form, ra):
    nd = ra.ndim
    if form.startswith("1d_"):
        return nd == 1 and len(ra.labels[0]) > 0
    if form in ("nested_dict", "from_nested", "nested_list+labels"):
        return nd >= 1 and all(len(l) > 0 for l in ra.labels)
    if form == "dict_nodims":
        return nd >= 1
    if nd == 0:
        return form in ("lists+dims", "from_dimarray", "array()", "axes_instance", "from_json")
    if form == "from_json":
        return all(len(l) > 0 for l in ra.labels)
    return True


V = np.arange(6.).reshape(2, 3)
X2, Y3 = [10, 20], ["a", "b", "c"]
REJECT = {
    "shape_lists": lambda: DimArray(V, axes=[[10, 20, 30], Y3], dims=["x", "y"]),
    "shape_pairs": lambda: DimArray(V, axes=[("x", X2), ("y", ["a", "b"])]),
    "shape_axis_objects": lambda: DimArray(V, axes=[Axis(np.array([10, 20, 30]), "x"), Axis(np.array(Y3, dtype=object), "y")]),
    "shape_axes_instance": lambda: DimArray(V, axes=Axes([Axis(np.array(X2), "x"), Axis(np.array(["a", "b"], dtype=object), "y")])),
    "shape_axes_of_other": lambda: DimArray(np.zeros((3, 2)), axes=DimArray(V, axes=[X2, Y3], dims=["x", "y"]).axes),
    "shape_dict_dims": lambda: DimArray(V, axes={"x": [1, 2, 3], "y": Y3}, dims=["x", "y"]),
    "shape_transposed": lambda: DimArray(V.T, axes=[X2, Y3], dims=["x", "y"]),
    "shape_too_few_axes": lambda: DimArray(V, axes=[X2], dims=["x"]),
    "shape_too_many_axes": lambda: DimArray(V, axes=[X2, Y3, [1]], dims=["x", "y", "z"]),
    "shape_1d": lambda: DimArray([1, 2, 3], axes=[[1, 2]], dims=["x"]),
    # more dimension names than dimensions (names only, no labels): the surplus must not be dropped silently
    "dims_only_too_many": lambda: DimArray(V, dims=["x", "y", "z"]),
    "names_as_axes_too_many": lambda: DimArray(V, axes=["x", "y", "z"]),
    "dims_only_1d_too_many": lambda: DimArray([1, 2, 3], dims=["x", "y"]),
    "dims_only_0d_too_many": lambda: DimArray(3.0, dims=["x"]),
    "zeros_dims_shape_conflict": lambda: da.zeros(dims=("a", "b"), shape=(2,)),
    # an axis replaced by one that carries the NAME of another axis of the same array / Dataset
    "axes_setitem_dup_name": lambda: DimArray(V, axes=[X2, Y3], dims=["x", "y"]).axes.__setitem__(0, Axis(np.array(X2), "y")),
    "axes_setitem_dup_name_by_name": lambda: DimArray(V, axes=[X2, Y3], dims=["x", "y"]).axes.__setitem__("y", Axis(np.array(Y3, dtype=object), "x")),
    "ds_axes_setitem_dup_name": lambda: Dataset(v=DimArray(V, axes=[X2, Y3], dims=["x", "y"])).axes.__setitem__("x", Axis(np.array(X2), "y")),
    "shape_lists_of_lists": lambda: DimArray([[1, 2, 3], [4, 5, 6]], axes=[[1, 2, 3], [1, 2]]),
    "dup_dims": lambda: DimArray(V, axes=[X2, Y3], dims=["x", "x"]),
    "dup_pairs": lambda: DimArray(V, axes=[("x", X2), ("x", Y3)]),
    "dup_axis_objects": lambda: DimArray(V, axes=[Axis(np.array(X2), "x"), Axis(np.array(Y3, dtype=object), "x")]),
    "dup_axes_instance": lambda: Axes([Axis(np.array(X2), "x"), Axis(np.array(Y3, dtype=object), "x")]),
    "empty_name": lambda: DimArray(V, axes=[X2, Y3], dims=["", "y"]),
    "empty_name_axis": lambda: Axis(np.array(X2), ""),
    "nonstr_name": lambda: DimArray(V, axes=[X2, Y3], dims=[0, 1]),
    "nonstr_name_axis": lambda: Axis(np.array(X2), 5),
    "none_name_pairs": lambda: DimArray(V, axes=[(None, X2), ("y", Y3)]),
    "axis_2d_labels": lambda: Axis(np.zeros((2, 2, 2)), "x"),
    "zeros_shape_conflict": lambda: da.zeros(axes=[("x", X2)], shape=(3,)),
    "ones_shape_conflict": lambda: da.ones(axes=[Axis(np.array(X2), "x")], shape=(3,)),
    "empty_axes_shape_conflict": lambda: da.empty(axes=Axes([Axis(np.array(X2), "x"), Axis(np.array(Y3, dtype=object), "y")]), shape=(2, 4)),
    "axes_setter_size": lambda: _set_axes(),
    "values_setter_shape": lambda: _set_values(),
    "axis_values_setter_size": lambda: setattr(Axis(np.array(X2), "x"), "values", np.array([1, 2, 3])),
    "axes_setitem_size": lambda: DimArray(V, axes=[X2, Y3], dims=["x", "y"]).axes.__setitem__(0, Axis(np.array([1, 2, 3]), "x")),
    # ONE label for an axis of three ("must have exactly the same length as original axis"): refused, not broadcast onto the whole axis
    "set_axis_len1": lambda: DimArray(V, axes=[X2, Y3], dims=["x", "y"]).set_axis([9], axis="y"),
    "set_axis_len1_copy": lambda: DimArray(V, axes=[X2, Y3], dims=["x", "y"]).set_axis(["q"], axis=1, inplace=False),
    "ds_set_axis_len1": lambda: Dataset(v=DimArray(V, axes=[X2, Y3], dims=["x", "y"])).set_axis([9], axis="y"),
    "clean_x_setter_size": lambda: _refused_cleanly(lambda a: setattr(a, "x", ["p", "q", "r"])),
    "clean_labels_setter_size": lambda: _refused_cleanly(lambda a: setattr(a, "labels", (["p", "q", "r"], Y3))),
    "clean_set_axis_size": lambda: _refused_cleanly(lambda a: a.set_axis([0.5, 1.5, 2.5], axis="x")),
    "clean_axis_setitem_range": lambda: _refused_cleanly(lambda a: a.axes[0].__setitem__(5, "q")),
    "clean_values_setter_shape": lambda: _refused_cleanly(lambda a: setattr(a, "values", np.zeros((3, 2)) + 0.5)),
    "labels_setter_size": lambda: setattr(DimArray(V, axes=[X2, Y3], dims=["x", "y"]), "labels", ([1, 2, 3], Y3)),
    "rename_empty": lambda: setattr(DimArray(V, axes=[X2, Y3], dims=["x", "y"]).axes[0], "name", ""),
    "rename_nonstr": lambda: setattr(DimArray(V, axes=[X2, Y3], dims=["x", "y"]).axes[0], "name", 3),
    "newaxis_existing": lambda: DimArray(V, axes=[X2, Y3], dims=["x", "y"]).newaxis("x"),
    "stack_existing": lambda: da.stack([DimArray(V, axes=[X2, Y3], dims=["x", "y"])] * 2, axis="y"),
    "row_plus_bigger_nd": lambda: DimArray(np.zeros((1, 3)), axes=[[10], Y3], dims=["x", "y"]) + np.ones((2, 3)),
    "row_eq_bigger_nd": lambda: _must_be_wellformed(DimArray(np.zeros((1, 3)), axes=[[10], Y3], dims=["x", "y"]) == np.ones((2, 3))),
    "apply_shape_change": lambda: DimArray(V, axes=[X2, Y3], dims=["x", "y"]).apply(np.cumsum),
}


def _set_axes():
    a = DimArray(V, axes=[X2, Y3], dims=["x", "y"])
    a.axes = [[1, 2, 3], Y3]
    return a


def _set_values():
    a = DimArray(V, axes=[X2, Y3], dims=["x", "y"])
    a.values = np.zeros((3, 2))
    return a


class _Accepted(Exception):
    pass


def _refused_cleanly(edit):
    """a wrong-sized in-place edit must be refused AND leave the array (values, labels, their dtypes) as it was"""
    a = DimArray(np.arange(6).reshape(2, 3), axes=[np.array(X2), np.array(Y3, dtype=object)], dims=["x", "y"])
    before = common.snap(a)
    try:
        edit(a)
    except Exception:
        if common.snap(a) != before:
            return "REFUSED, BUT THE ARRAY CHANGED ALL THE SAME: " + common.describe(a)
        raise
    return a


def _must_be_wellformed(res):
    """comparison with an incompatible ndarray may legitimately return a plain False; an ill-formed DimArray may not be returned"""
    if isinstance(res, DimArray) and common.wellformed(res):
        return res
    raise _Accepted()


# ------------------------------------------------------------------------------------------
# part 2: constructor monitor
# ------------------------------------------------------------------------------------------
_MON = {"installed": False, "bad": [], "count": 0}


def install_monitor():
    if _MON["installed"]:
        return
    orig = DimArray.__init__

    def __init__(self, *a, **k):
        orig(self, *a, **k)
        _MON["count"] += 1
        w = common.wellformed(self)
        if w:
            _MON["bad"].append(w)
    DimArray.__init__ = __init__
    _MON["installed"] = True


def _walk(res):
    if isinstance(res, DimArray):
        yield res
    elif isinstance(res, Dataset):
        for k in res.keys():
            yield dict.__getitem__(res, k)
    elif isinstance(res, (list, tuple)):
        for r in res:
            for x in _walk(r):
                yield x
    elif isinstance(res, dict):
        for r in res.values():
            for x in _walk(r):
                yield x


# ------------------------------------------------------------------------------------------
# part 3: history independence
# ------------------------------------------------------------------------------------------
SEEDS = {
    "A": D.spec(["x", "y"], [[10, 30, 20, 40], ["b", "a"]], ["i", "O"], vk="f", base=1, attrs={"u": 1}),
    "B": D.spec(["x"], [[0.5, 1.5, 2.5]], ["f"], vk="f", base=2),
    "C": D.spec(["x", "y", "z"], [[30, 10, 20], ["a", "b"], [7]], ["i", "O", "i"], vk="i", base=1),
}


def partner(name, kind="i"):
    lab = {"i": [10, 20, 50], "f": [0.5, 2.5, 3.5], "O": ["a", "c"]}[kind]
    return DimArray(np.arange(1., len(lab) + 1), axes=[Axis(D.np_labels(lab, kind), name)])


def _first(r):
    ax = r.axes[0]
    return ax, ("O" if ax.values.dtype.kind == "O" else ("f" if ax.values.dtype.kind == "f" else "i"))


def _single(ax):
    """a grouped axis with ONE member (what flatten() of a 1-D array returns): the same dimension name, the same labels - only the type of the Axis
    object differs, so the array must answer like a fresh array over a plain axis"""
    return isinstance(ax, MultiAxis) and len(ax.axes) == 1 and "," not in ax.name


def _plain(r):
    return isinstance(r, DimArray) and r.ndim >= 1 and (not isinstance(r.axes[0], MultiAxis) or _single(r.axes[0])) and "," not in r.axes[0].name


def _via_ds(r, rename):
    """the variable of a Dataset after a renaming through the Dataset that re-uses names already in use (a duplicate must be refused - the
    producer is then not applicable - or at least leave a well-formed variable)"""
    if r.ndim < 2:
        return None
    ds = Dataset(v=r.copy())
    rename(ds)
    return ds["v"]


PRODUCERS = {
    "T": lambda r: r.T if r.ndim <= 2 else r.transpose(*r.dims[::-1]), "squeeze": lambda r: r.squeeze(), "flatten": lambda r: r.flatten(),
    # (along-axis transforms with the axis given as a 1-tuple / 1-list: the documented tuple form with a single dimension)
    "cumsum_tuple1": lambda r: r.cumsum(axis=(r.dims[0],)), "diff_keep_list1": lambda r: r.diff(axis=[r.dims[-1]], keepaxis=True),
    "flatten_one": lambda r: r.flatten([r.dims[0]]),
    "flatten_rev": lambda r: r.flatten(r.dims[::-1], insert=0), "unflatten": lambda r: r.unflatten(), "ix_slice": lambda r: r.ix[:2],
    "ix_slice_rev": lambda r: r.ix[::-1], "label_slice": lambda r: r[py(r.axes[0].values[0]):py(r.axes[0].values[1])], "take_axis": lambda r: r.take_axis([1, 0], axis=0, indexing="position"),
    "sort_axis": lambda r: r.sort_axis(axis=0), "reindex": lambda r: r.reindex_axis(py(r.axes[0].values)[::-1], axis=0), "add_partner": lambda r: r + partner(r.dims[0], _first(r)[1]),
    "set_axis_name_dup": lambda r: r.set_axis(name=r.dims[-1], axis=0, inplace=False) if r.ndim >= 2 else None,
    "ds_dims_dup": lambda r: _via_ds(r, lambda ds: setattr(ds, "dims", (ds.dims[0],) * len(ds.dims))),
    "ds_rename_dup": lambda r: _via_ds(r, lambda ds: ds.rename_axes({ds.dims[0]: ds.dims[1]})),
    "ds_set_axis_name_dup": lambda r: _via_ds(r, lambda ds: ds.set_axis(name=ds.dims[1], axis=0)),
    "ds_dims_perm": lambda r: _via_ds(r, lambda ds: setattr(ds, "dims", tuple(ds.dims[1:]) + tuple(ds.dims[:1]))),
    "diff": lambda r: r.diff(axis=0), "diff_fwd": lambda r: r.diff(axis=0, scheme="forward"), "label_slice_open": lambda r: r[py(r.axes[0].values[1]):],
    "argmax0": lambda r: r.argmax(axis=0) if r.ndim > 1 else None, "dropna": lambda r: r.dropna(axis=0), "compress": lambda r: r.compress([True] * (r.shape[0] - 1) + [False], axis=0),
    "neg": lambda r: -r, "mul": lambda r: r * 2, "eq": lambda r: r == r, "copy": lambda r: r.copy(), "newaxis": lambda r: r.newaxis("n", pos=1),
    "dataset": lambda r: Dataset(v=r)["v"], "cumsum": lambda r: r.cumsum(axis=0), "mean_last": lambda r: r.mean(axis=-1), "swapaxes": lambda r: r.swapaxes(0, -1),
    "dimarray": lambda r: DimArray(r), "put_copy": lambda r: r.put(0, 5, indexing="position", inplace=False), "index_list": lambda r: r.take(py(r.axes[0].values)[:2], axis=0),
}
QUERIES = {
    "q_mono": lambda r: [ax.is_monotonic() for ax in r.axes if not isinstance(ax, MultiAxis)], "q_labels": lambda r: r.labels, "q_slice": lambda r: r[py(r.axes[0].values[0]):],
    "q_add": lambda r: r + partner(r.dims[0], _first(r)[1]), "q_align": lambda r: da.align([r, partner(r.dims[0], _first(r)[1])]), "q_repr": lambda r: repr(r),
    "q_size": lambda r: [ax.size for ax in r.axes],
    # library calls that raise half-way (the exception is swallowed by the harness, as by a user's try / except)
    "q_ds_op_fails": lambda r: _ds_with_strings(r) - _ds_with_strings(r), "q_ix_fails": lambda r: r.ix[99],
    "q_take_fails": lambda r: r.take({"nodim_": 1}),
}


def _ds_with_strings(r):
    ds = Dataset()
    ds["v"] = r
    ds["s"] = DimArray(np.array(["u"] * r.shape[0], dtype=object), axes=[r.axes[0].copy()])
    return ds


def _fresh_label(ax):
    k = ax.values.dtype.kind
    return "zz" if k == "O" else (99.5 if k == "f" else 99)


def m_relabel(r):
    r.axes[0][0] = _fresh_label(r.axes[0])


def m_relabel_last_axis(r):
    r.axes[-1][-1] = _fresh_label(r.axes[-1])


_TAKEN = set()     # dimension names in use in ANY register (registers may share Axis objects): renames go to names outside it


def _fresh_name():
    for n in ("w", "v", "q", "p", "r", "s", "u1", "u2", "u3", "u4", "u5", "u6", "u7", "u8"):
        if n not in _TAKEN:
            return n


def m_rename(r):
    r.axes[0].name = _fresh_name()


def m_rename_last(r):
    r.axes[-1].name = _fresh_name()


def m_set_sorted(r):
    r.set_axis(sorted(py(r.axes[0].values)), axis=0)


def m_set_axis_values(r):
    r.axes[0].values = np.array(py(r.axes[0].values)[::-1], dtype=r.axes[0].values.dtype)


def m_dimattr(r):
    setattr(r, r.dims[0], py(r.axes[0].values)[::-1])


def m_put(r):
    r.put((0,) * r.ndim, 77, indexing="position")


def m_dims(r):
    k = 0
    names = []
    for i in range(r.ndim):
        while "d%d" % k in _TAKEN:
            k += 1
        names.append("d%d" % k)
        k += 1
    r.dims = tuple(names)


def m_dims_dup(r):        # renaming to duplicate names must be refused
    if r.ndim < 2:
        raise ValueError("n/a")
    r.dims = (r.dims[0],) * r.ndim


def m_dims_perm(r):       # the new names are a permutation of the old ones: dimension i gets the i-th new name
    if r.ndim < 2:
        raise ValueError("n/a")
    new = tuple(r.dims[1:]) + tuple(r.dims[:1])
    r.dims = new
    return {"dims": new}


def m_dims_dict_swap(r):
    if r.ndim < 2:
        raise ValueError("n/a")
    d = list(r.dims)
    new = tuple([d[1], d[0]] + d[2:])
    r.dims = {d[0]: d[1], d[1]: d[0]}
    return {"dims": new}


def m_set_axis_name_dup(r):
    if r.ndim < 2:
        raise ValueError("n/a")
    r.set_axis(name=r.dims[1], axis=0)


def m_axes_fewer(r):      # whole-axes assignment with a wrong number of axes: must be refused (or leave a well-formed array)
    r.axes = [ax.copy() for ax in r.axes][:-1]


def m_axes_more(r):
    r.axes = [ax.copy() for ax in r.axes] + [Axis(np.arange(r.shape[0]), "extra_")]


def m_axes_none(r):
    r.axes = []


def m_axes_ok(r):
    r.axes = [Axis(np.array(py(ax.values)[::-1], dtype=ax.values.dtype), ax.name) for ax in r.axes]


MUTATORS = {"m_dims_dup": m_dims_dup, "m_dims_perm": m_dims_perm, "m_dims_dict_swap": m_dims_dict_swap, "m_set_axis_name_dup": m_set_axis_name_dup, "m_axes_fewer": m_axes_fewer, "m_axes_more": m_axes_more, "m_axes_none": m_axes_none, "m_axes_ok": m_axes_ok, "m_relabel": m_relabel, "m_relabel_last": m_relabel_last_axis, "m_rename": m_rename, "m_rename_last": m_rename_last, "m_set_sorted": m_set_sorted,
            "m_set_axis_values": m_set_axis_values, "m_dimattr": m_dimattr, "m_put": m_put, "m_dims": m_dims}


def fresh_twin(r):
    """a freshly constructed array with the same values, labels and dims (grouped axes rebuilt by flatten of a fresh array)"""
    if not any(isinstance(ax, MultiAxis) and not _single(ax) for ax in r.axes):
        axes = [Axis(np.array(py(ax.values), dtype=ax.values.dtype) if ax.values.dtype != object else np.array(py(ax.values) + [None], dtype=object)[:-1], ax.name)
                for ax in r.axes]
        t = DimArray(np.array(r.values, copy=True), axes=axes, _indexing=r._indexing)
        t.attrs.update(r.attrs)
        return t
    # unflattened twin from the member axes, then the same grouping
    members, layout, shape = [], [], []
    for ax in r.axes:
        if isinstance(ax, MultiAxis) and not _single(ax):
            layout.append([m.name for m in ax.axes])
            for m in ax.axes:
                members.append(Axis(np.array(py(m.values), dtype=m.values.dtype) if m.values.dtype != object else np.array(py(m.values) + [None], dtype=object)[:-1], m.name))
                shape.append(m.size)
        else:
            layout.append(None)
            members.append(Axis(np.array(py(ax.values), dtype=ax.values.dtype) if ax.values.dtype != object else np.array(py(ax.values) + [None], dtype=object)[:-1], ax.name))
            shape.append(ax.size)
    t = DimArray(np.array(r.values, copy=True).reshape(shape), axes=members)
    for i, g in enumerate(layout):
        if g is not None:
            t = t.flatten(tuple(g), insert=i)
    t.attrs.update(r.attrs)
    return t


def _norm(x):
    """a grouped axis with one member is observed as what it is for the user - an axis with that name and those labels"""
    if isinstance(x, (list, tuple)):
        return type(x)(_norm(o) for o in x)
    if isinstance(x, DimArray) and any(_single(ax) for ax in x.axes):
        axes = []
        for ax in x.axes:
            if _single(ax):
                p = Axis(ax.values, ax.name)
                p.attrs.update(ax.axes[0].attrs)
                p.attrs.update(ax.attrs)
                ax = p
            axes.append(ax)
        y = DimArray(x.values, axes=axes)
        y.attrs.update(x.attrs)
        return y
    return x


def _psnap(x):
    if isinstance(x, Raised):
        return ("raised", x.cls.__name__)
    return common.snap(_norm(x))


def probes(r):
    out = {}
    out["dims"] = tuple(r.dims)
    out["labels"] = _psnap(call(lambda: [py(ax.values) for ax in r.axes]))
    out["wellformed"] = common.wellformed(r)
    if r.ndim == 0:
        return out
    out["sum0"] = _psnap(call(r.sum, axis=0))
    out["T"] = _psnap(call(lambda: r.T if r.ndim <= 2 else r.transpose(*r.dims[::-1])))
    out["flatten_labels"] = _psnap(call(lambda: py(r.flatten().axes[0].values)))
    out["members"] = _psnap(call(lambda: [[(m.name, py(m.values)) for m in ax.axes] if isinstance(ax, MultiAxis) and not _single(ax) else None for ax in r.axes]))
    out["unflatten"] = _psnap(call(r.unflatten))
    if _plain(r) and r.axes[0].size >= 2:
        ax, kind = _first(r)
        lab = py(ax.values)
        out["index0"] = _psnap(call(lambda: r[lab[0]]))
        out["slice"] = _psnap(call(lambda: r[lab[0]:lab[1]]))
        out["slice_open"] = _psnap(call(lambda: r[:lab[-1]]))
        out["add"] = _psnap(call(lambda: r + partner(r.dims[0], kind)))
        out["radd"] = _psnap(call(lambda: partner(r.dims[0], kind) + r))
        out["align"] = _psnap(call(lambda: da.align([r, partner(r.dims[0], kind)])))
        out["align_inner"] = _psnap(call(lambda: da.align([partner(r.dims[0], kind), r], join="inner")))
        out["sort"] = _psnap(call(r.sort_axis, axis=0))
        out["reindex"] = _psnap(call(lambda: r.reindex_axis(lab[::-1], axis=0)))
        out["stack"] = _psnap(call(lambda: da.stack([r, r], axis="s_")))
    return out


def _extras(o):
    """everything else the library keeps ON the object, abstracted to 'name: empty / filled': two states that differ in a remembered value
    (a cache) are not the same state, whatever the public view says"""
    d = getattr(o, "__dict__", None) or {}
    return tuple(sorted((k, d[k] is not None) for k in d if isinstance(k, str) and k not in ("_values", "_axes", "_attrs", "_indexing", "_monotonic", "axes", "name", "_name", "_tol")))


def hidden(regs):
    sig = []
    ids = {}
    for r in regs:
        if not isinstance(r, DimArray):
            sig.append(None)
            continue
        row = []
        for ax in r.axes:
            objs = [ax] + (list(ax.axes) if isinstance(ax, MultiAxis) else [])
            for o in objs:
                ids.setdefault(id(o), len(ids))
            row.append((ids[id(ax)], tuple(ids[id(m)] for m in ax.axes) if isinstance(ax, MultiAxis) else None,
                        getattr(ax, "_monotonic", None), (ax._values is None) if isinstance(ax, MultiAxis) else None,
                        _extras(ax)))
        ids.setdefault(id(r.axes), len(ids))
        sig.append((tuple(row), ids[id(r.axes)], r._indexing, _extras(r), _extras(r.axes)))
    return tuple(sig)


def events_list():
    ev = []
    for name in PRODUCERS:
        ev.append(["prod", name, 0])       # r1 = op(r0)
    for name in ("flatten", "unflatten", "T", "ix_slice", "neg", "add_partner"):
        ev.append(["prod", name, 1])       # r1 = op(r1)
    for name in QUERIES:
        ev.append(["query", name, 0]); ev.append(["query", name, 1])
    for name in MUTATORS:
        ev.append(["mut", name, 0]); ev.append(["mut", name, 1])
    return ev


class Space(object):
    def initial(self, tier):
        return [[["seed", k]] for k in sorted(SEEDS) + ["D"]] + [[["seed", k + "*"]] for k in sorted(SEEDS)]

    def events(self, hist, tier):
        return events_list()

    def run(self, hist):
        seed = hist[0][1]
        if seed.rstrip("*") == "D":      # built WITHOUT axes: default dims x0, x1 and labels 0..n-1 supplied by the library
            regs = [DimArray(np.arange(6.).reshape(3, 2) + 100), None]
        else:
            regs = [D.build_impl(SEEDS[seed.rstrip("*")]), None]
        if seed.endswith("*"):            # a 'used' start state: every query of the alphabet has been asked once (caches filled)
            for q in sorted(QUERIES):
                call(QUERIES[q], regs[0])
        changed = False
        for n, ev in enumerate(hist[1:]):
            last = n == len(hist) - 2
            kind, name, ri = ev
            src = regs[ri]
            if not isinstance(src, DimArray):
                return ok("disabled", False, terminal=True, canon=None)
            pre = (tuple(common.snap(r) if isinstance(r, DimArray) else None for r in regs), hidden(regs)) if last else None
            grouped = any(isinstance(ax, MultiAxis) and not _single(ax) for ax in src.axes)
            if kind == "prod":
                if grouped and name in ("flatten", "flatten_rev"):
                    return ok("disabled", False, terminal=True, canon=None)     # grouping an already grouped axis: outside the alphabet
                res = call(PRODUCERS[name], src)
                if isinstance(res, Raised) or not isinstance(res, DimArray):
                    if last:
                        return ok("producer-n/a", False, terminal=True, canon=None)
                    return ok("disabled", False, terminal=True, canon=None)
                regs[1] = res
            elif kind == "query":
                call(QUERIES[name], src)
            else:
                if grouped and name in ("m_rename", "m_rename_last", "m_dims", "m_relabel", "m_relabel_last", "m_set_sorted", "m_set_axis_values", "m_dimattr", "m_dims_dup", "m_dims_perm", "m_dims_dict_swap", "m_set_axis_name_dup", "m_axes_ok", "m_axes_fewer", "m_axes_more", "m_axes_none"):
                    return ok("disabled", False, terminal=True, canon=None)     # direct edits of a grouped axis are outside the alphabet
                if name in ("m_dims_perm", "m_dims_dict_swap", "m_set_axis_name_dup", "m_dims_dup"):
                    # renames to names already in use: only when the other register shares no Axis object with this one (results of indexing /
                    # transpose share the operand's Axis objects by design, so an in-place rename of one shows in the other)
                    mine = set(id(ax) for ax in src.axes)
                    if any(isinstance(rr, DimArray) and rr is not src and mine & set(id(ax) for ax in rr.axes) for rr in regs):
                        return ok("disabled", False, terminal=True, canon=None)
                _TAKEN.clear()
                for rr in regs:
                    if isinstance(rr, DimArray):
                        for ax in rr.axes:
                            _TAKEN.update(ax.name.split(","))
                            if isinstance(ax, MultiAxis):
                                _TAKEN.update(m.name for m in ax.axes)
                res = call(MUTATORS[name], src)
                if isinstance(res, Raised):
                    return ok("mutator-n/a", False, terminal=True, canon=None)
                if isinstance(res, dict) and "dims" in res and tuple(src.dims) != tuple(res["dims"]):
                    return bad("after {}: the dimensions were to be renamed to {} but are {}".format(hist[1:], res["dims"], tuple(src.dims)))
            if last:
                changed = (tuple(common.snap(r) if isinstance(r, DimArray) else None for r in regs), hidden(regs)) != pre
        # the state is identified BEFORE the probes below run: they are queries themselves and fill the same caches the histories are about
        state_canon = common.digest((tuple(common.snap(r) if isinstance(r, DimArray) else None for r in regs), hidden(regs)))
        # every register must answer like a freshly constructed twin
        for i, r in enumerate(regs):
            if not isinstance(r, DimArray):
                continue
            w = common.wellformed(r)
            if w:
                return bad("after {}: register r{} is malformed: {}".format(hist[1:], i, w))
            tw = call(fresh_twin, r)
            if isinstance(tw, Raised):
                return bad("after {}: a fresh array with the values / labels / dims of r{} cannot be constructed: {} ({})".format(
                    hist[1:], i, tw, common.describe(r)))
            pr, pt = probes(r), probes(tw)
            for k in pr:
                if pr[k] != pt[k]:
                    return bad("after {}: register r{} ({}) answers probe {!r} differently from a freshly constructed array with the same "
                               "values, labels and dims: {} vs fresh {}".format(hist[1:], i, common.describe(r, 200), k, str(pr[k])[:300], str(pt[k])[:300]))
        # whatever happened to other arrays before, the constructor forms that OMIT the axes still mean labels 0..n-1 and dims x0, x1, ...
        for build, nm in ((lambda: DimArray(np.zeros((3, 2))), "DimArray(values)"), (lambda: da.zeros(shape=(3, 2)), "zeros(shape=)"),
                          (lambda: da.ones(shape=(3,)), "ones(shape=)")):
            d0 = call(build)
            if isinstance(d0, Raised):
                return bad("after {}: {} raised {}".format(hist[1:], nm, d0), klass="unexpected-exception")
            labs = [py(ax.values) for ax in d0.axes]
            if labs != [list(range(n)) for n in d0.shape] or list(d0.dims) != ["x%d" % i for i in range(d0.ndim)]:
                return bad("after {}: {} built dims {} with labels {} instead of the default x0.. / 0..n-1".format(hist[1:], nm, d0.dims, labs))
        # ... and two freshly built arrays with overlapping labels still add up label-wise (an earlier call - also one that failed half-way -
        # must not have left the library in another mode of operation)
        p1 = DimArray(np.array([1., 2., 3.]), axes=[Axis(np.array([10, 20, 50]), "k_")])
        p2 = DimArray(np.array([10., 20., 30.]), axes=[Axis(np.array([20, 50, 60]), "k_")])
        sm = call(lambda: p1 + p2)
        if isinstance(sm, Raised) or py(sm.axes[0].values) != [10, 20, 50, 60] or not common.same_values(sm.values, np.array([np.nan, 12., 23., np.nan])):
            return bad("after {}: two freshly built arrays labelled [10, 20, 50] and [20, 50, 60] add up to {} instead of labels [10, 20, 50, 60] "
                       "values [nan, 12, 23, nan]".format(hist[1:], common.describe(sm)))
        return ok(hist[-1][0], changed, canon=state_canon)


SPACES = {"hist": Space()}


def bfs(tier, ctx):
    ctx.bfs("hist", bounds(tier)["bfs_depth"], time_cap=300 if tier == "quick" else 2400)


# ------------------------------------------------------------------------------------------
# E1 plumbing (parts 1 and 2)
# ------------------------------------------------------------------------------------------
def shards(tier):
    return [{"part": "forms", "i": i} for i in range(len(LOGICAL))] + [{"part": "reject"}] + \
           [{"part": "monitor", "variant": v} for v in ("fresh", "squeeze", "T")]


def cases(sh, tier):
    if sh["part"] == "forms":
        ra = D.build_ref(LOGICAL[sh["i"]])
        for form in sorted(FORMS):
            if _form_applies(form, ra):
                for as_list in (False, True):
                    yield {"part": "forms", "i": sh["i"], "form": form, "as_list": as_list}
    elif sh["part"] == "reject":
        for name in sorted(REJECT):
            yield {"part": "reject", "name": name}
    else:
        for name in sorted(alphabet.OPS):
            yield {"part": "monitor", "op": name, "variant": sh["variant"]}


def state_key(case):
    return [case.get("part"), case.get("i"), case.get("variant")] if "part" in case else case["hist"][:1]


def check(case):
    part = case["part"]
    if part == "forms":
        s = LOGICAL[case["i"]]
        ra = D.build_ref(s)
        got = call(FORMS[case["form"]], ra, case["as_list"])
        what = "constructor form {!r} (values as {}) for dims {} labels {}".format(case["form"], "lists" if case["as_list"] else "ndarrays", ra.dims, list(ra.labels))
        if isinstance(got, Raised):
            return bad("{} raised {}".format(what, got), klass="unexpected-exception")
        m = D.compare(got, ra, what=what)
        return bad(m) if m else ok("built")
    if part == "reject":
        got = call(REJECT[case["name"]])
        if isinstance(got, Raised):
            return ok("accepted-alternative" if got.cls is _Accepted else "rejected")
        return bad("malformed construction {!r} was not rejected: got {}".format(case["name"], common.describe(got)))
    install_monitor()
    env = alphabet.make_env(case["variant"])
    _MON["bad"] = []
    c0 = _MON["count"]
    res = call(alphabet.OPS[case["op"]], env)
    n = _MON["count"] - c0
    if _MON["bad"]:
        return bad("operation {!r} ({} operands): an array left DimArray.__init__ ill-formed: {}".format(case["op"], case["variant"], _MON["bad"][0]))
    if not isinstance(res, Raised):
        for x in _walk(res):
            w = common.wellformed(x)
            if w:
                return bad("operation {!r}: returned array is ill-formed: {}".format(case["op"], w))
    return ok("monitored", True, extra={"arrays_through_constructor": n})


def snippet(case):
    if "hist" in case:
        return "from mc.props import c05\nprint(c05.SPACES['hist'].run({!r}))".format(case["hist"])
    return "from mc.props import c05\nprint(c05.check({!r}))".format(case)


def triage_sig(case, detail, klass):
    import re
    return (klass, case.get("part"), case.get("form") or case.get("name") or case.get("op"), re.sub(r"[-0-9.]+", "#", detail)[:110])


CLASSIFIERS = {}
