"""C12 - stack and concatenate join arrays without misaligning them.

clause -> observable -> oracle
  stack: first dim is the new axis labelled by keys; slice at key k holds exactly the labelled data of arrays[k]
        -> coordinate-wise (by dimension NAME and LABEL) comparison of every slice with its input
  concatenate: labels along d concatenated in order, block i == arrays[i] (by name / label on the other dims), other axes unchanged
  other axes with different labels, or the same labels in another order -> ValueError unless align=True
  align=True -> outer join, each input's data stays at its own labels, NaN elsewhere
  only the ORDER of dimensions differs -> reordered by name OR refused (ValueError); never joined positionally
  lists and dicts as input; keys of int / str kind; concatenation axis by name or position (negative included)
Not covered: label order of aligned secondary axes (C06), attrs of the result (C16).
"""
import itertools
import numpy as np
from mc import common, domains as D, ref as R
from mc.engine import ok, bad, unspecified
from mc.common import call, Raised, DimArray, py, same_scalar, same_list

ID = "C12"
VARIANT_SWEEP = True      # thorough tier: every case on every history variant of its array (see mc/domains.py VSHIFT)
TITLE = "stack / concatenate join without misaligning"
RULE = ("all lists (and dicts) of 1-3 (thorough 4) arrays over the same set of dimensions (2-D and 3-D, SQUARE shapes, dims in same or "
        "reversed / rotated order), per-array variant of the secondary axes in {equal, permuted, overlapping, disjoint, int-vs-float equal} x "
        "stack(keys int/str, align, sort) and concatenate(every axis by name/position, align, sort); non-trivial = at least two arrays, "
        "or a refusal is expected")
ASSUMPTIONS = ["reference: coordinate maps of the inputs (mc/ref.py); python list concatenation for the concatenated labels"]

X = {"eq": ("i", [10, 20]), "perm": ("i", [20, 10]), "ovl": ("i", [20, 30]), "disj": ("i", [40, 50]), "flt": ("f", [10.0, 20.0]), "frac": ("f", [10.5, 20.5]), "one": ("i", [10]), "one2": ("i", [20])}
Y = {"eq": ("O", ["a", "b"]), "perm": ("O", ["b", "a"]), "ovl": ("O", ["b", "c"]), "disj": ("O", ["p", "q"])}
Z = {"eq": ("f", [0.5, 1.5]), "perm": ("f", [1.5, 0.5])}
# 3-label axes: mismatches that AGREE in some positions (reversal with a fixed point, overlap sharing positions, rotation)
X.update({"eq3": ("i", [10, 20, 30]), "rev3": ("i", [30, 20, 10]), "ovl3": ("i", [10, 20, 40]), "rot3": ("i", [20, 30, 10])})
Y.update({"eq3": ("O", ["a", "b", "c"]), "rev3": ("O", ["c", "b", "a"]), "ovl3": ("O", ["a", "b", "d"]), "swap3": ("O", ["a", "c", "b"])})


def bounds(tier):
    return {"max_arrays": 3 if tier == "quick" else 4, "shapes": "2x2, 3x3, 2x2x2 (square), 1x2", "keys": ["int", "str"]}


# an array variant = (x-variant, y-variant, dim-order)
VARS2 = [("eq", "eq", "xy"), ("eq", "perm", "xy"), ("eq", "ovl", "xy"), ("eq", "disj", "xy"), ("perm", "eq", "xy"), ("ovl", "eq", "xy"),
         ("disj", "eq", "xy"), ("eq", "eq", "yx"), ("eq", "perm", "yx"), ("disj", "eq", "yx"), ("flt", "eq", "xy"), ("perm", "perm", "xy"),
         ("frac", "eq", "xy")]     # labels of another numeric type that the first operand's label type cannot hold
VARS3 = [("eq", "eq", "xyz"), ("eq", "perm", "xyz"), ("disj", "eq", "xyz"), ("eq", "eq", "xzy"), ("eq", "eq", "zyx"), ("disj", "eq", "xzy"),
         ("eq", "eq", "yxz"), ("perm", "eq", "xyz")]
VARS33 = [("eq3", "eq3", "xy"), ("eq3", "rev3", "xy"), ("eq3", "ovl3", "xy"), ("eq3", "swap3", "xy"), ("rev3", "eq3", "xy"), ("ovl3", "eq3", "xy"),
          ("rot3", "eq3", "xy"), ("eq3", "eq3", "yx"), ("eq3", "rev3", "yx"), ("rot3", "rot3" if False else "eq3", "yx")]
VARS1 = [("one", "eq", "xy"), ("one2", "eq", "xy"), ("one", "perm", "xy"), ("one2", "eq", "yx")]


def _spec(var, k, nd):
    vx, vy, order = var
    lab = {"x": X[vx], "y": Y[vy], "z": Z["perm" if (vy == "perm" and nd == 3) else "eq"]}
    dims = list(order)
    return D.spec(dims, [lab[d][1] for d in dims], [lab[d][0] for d in dims], vk=["f", "i", "f4", "i4"][k % 4], base=10 * (k + 1) + 1,
                  var=D.VARIANTS[(k * 2 + len(order)) % len(D.VARIANTS)], attrs={"src": k})


def shards(tier):
    out = []
    nmax = bounds(tier)["max_arrays"]
    for fam, V in (("2", VARS2), ("3", VARS3), ("1", VARS1), ("33", VARS33)):
        for n in range(1, nmax + 1):
            if fam == "3" and n > 3:
                continue
            if n == 1:
                out.append({"fam": fam, "n": 1, "first": 0})
            else:
                for v1 in range(len(V)):
                    out.append({"fam": fam, "n": n, "first": v1})
    return out


def _V(fam):
    return {"2": VARS2, "3": VARS3, "1": VARS1, "33": VARS33}[fam]


def cases(sh, tier):
    V = _V(sh["fam"])
    nd = 3 if sh["fam"] == "3" else 2
    n = sh["n"]
    if n == 1:
        combos = [(i,) for i in range(len(V))]
    else:
        rest = list(itertools.product(range(len(V)), repeat=n - 2)) if n > 2 else [()]
        if n == 4:
            rest = rest[::5]
        elif n == 3 and tier == "quick":
            rest = rest[::1]
        combos = [(0, sh["first"]) + tuple(r) for r in rest] + [(sh["first"], 0) + tuple(r) for r in rest[:3] if sh["first"] != 0]
    for c in combos:
        for align in (False, True):
            for sort in ((False, True) if align else (False,)):
                for keys in ("int", "str", "none"):
                    for cont in (("list", "dict", "dictk") if keys == "str" else ("list",)):
                        yield {"fam": sh["fam"], "vars": list(c), "op": "stack", "align": align, "sort": sort, "keys": keys, "cont": cont}
                dims0 = list(V[c[0]][2])
                for p in range(nd):
                    for axarg in (dims0[p], p) + ((-1,) if p == nd - 1 else ()):
                        yield {"fam": sh["fam"], "vars": list(c), "op": "concat", "align": align, "sort": sort, "axis": axarg, "p": p}
        yield {"fam": sh["fam"], "vars": list(c), "op": "stack-existing"}


def state_key(case):
    return [case["fam"], case["vars"]]


def _keys(kind, n):
    if kind == "int":
        return [7, 3, 5, 9][:n]
    if kind == "str":
        return ["k2", "k0", "k1", "k3"][:n]
    return None


def _lookup(ra, coord):
    """value of ra at {dim: label} (labels compared with ==), or None when not defined"""
    pos = []
    for i, d in enumerate(ra.dims):
        q = R.first_match(ra.labels[i], coord[d])
        if q is None:
            return None
        pos.append(q)
    return ra.vals[tuple(pos)]


def _secondary_ok(ras, skip=None):
    """(labels_equal, order_equal): are all secondary label vectors identical lists / are dims listed in the same order"""
    dims0 = [d for d in ras[0].dims if d != skip]
    lab_eq = True
    for r in ras[1:]:
        for d in dims0:
            if not same_list(r.labels[r.dims.index(d)], ras[0].labels[ras[0].dims.index(d)]):
                lab_eq = False
    order_eq = all(tuple(r.dims) == tuple(ras[0].dims) for r in ras)
    return lab_eq, order_eq


def check(case):
    V = _V(case["fam"])
    nd = 3 if case["fam"] == "3" else 2
    specs = [_spec(V[v], k, nd) for k, v in enumerate(case["vars"])]
    arrs = [D.build_impl(s) for s in specs]
    ras = [D.build_ref(s) for s in specs]
    befores = [common.snap(a) for a in arrs]
    n = len(arrs)
    op = case["op"]

    def unchanged():
        return all(common.snap(a) == b for a, b in zip(arrs, befores))

    if op == "stack-existing":
        got = call(common.da.stack, arrs, axis="x", keys=list(range(n)))
        if isinstance(got, Raised):
            return ok("refused-existing-name")
        return bad("stack(axis='x') with an existing dimension name returned {}".format(common.describe(got)))
    align, sort = case["align"], case["sort"]
    kw = {"align": align}
    if align and sort:
        kw["sort"] = True
    if op == "stack":
        keys = _keys(case["keys"], n)
        lab_eq, order_eq = _secondary_ok(ras)
        if case["cont"] == "list":
            got = call(common.da.stack, arrs, axis="s", keys=keys, **kw) if keys is not None else call(common.da.stack, arrs, axis="s", **kw)
            expkeys = keys if keys is not None else list(range(n))
        elif case["cont"] == "dict":
            got = call(common.da.stack, dict(zip(keys, arrs)), axis="s", **kw)
            expkeys = keys
        else:   # dict + explicit keys in another order: slice at key k must still be the array stored under k
            order = keys[::-1]
            got = call(common.da.stack, dict(zip(keys, arrs)), axis="s", keys=order, **kw)
            expkeys = order
            ras = [ras[keys.index(k)] for k in order]
        if not unchanged():
            return bad("stack modified an input")
        must_refuse = (not align) and (not lab_eq)
        if must_refuse:
            if isinstance(got, Raised) and issubclass(got.cls, ValueError):
                return ok("refused-ValueError")
            return bad("stack without align of arrays whose secondary axes differ (labels or order) must raise ValueError, got {}".format(common.describe(got)))
        if isinstance(got, Raised):
            if not order_eq and issubclass(got.cls, ValueError):
                return ok("refused-dim-order")
            return bad("stack({} arrays, {}) raised {}".format(n, kw, got), klass="unexpected-exception")
        m = _check_stacked(got, "s", expkeys, ras)
        return bad(m) if m else ok("stacked" if order_eq else "stacked-reordered", n > 1)
    # concatenate
    p = case["p"]
    d = ras[0].dims[p]
    lab_eq, order_eq = _secondary_ok(ras, skip=d)
    import zlib
    if set(kw) == {"align"} and zlib.crc32(repr(sorted(case.items(), key=str)).encode()) % 2 == 0:
        # align given positionally - concatenate(arrays, axis, align), the order of the documented parameters
        got = call(common.da.concatenate, arrs, case["axis"], kw["align"])
    else:
        got = call(common.da.concatenate, arrs, axis=case["axis"], **kw)
    if not unchanged():
        return bad("concatenate modified an input")
    must_refuse = (not align) and (not lab_eq)
    if must_refuse:
        if isinstance(got, Raised) and issubclass(got.cls, ValueError):
            return ok("refused-ValueError")
        return bad("concatenate along {!r} without align of arrays whose secondary axes differ must raise ValueError, got {}".format(d, common.describe(got)))
    if isinstance(got, Raised):
        if not order_eq and issubclass(got.cls, ValueError):
            return ok("refused-dim-order")
        return bad("concatenate({} arrays, axis={!r}, {}) raised {}".format(n, case["axis"], kw, got), klass="unexpected-exception")
    m = _check_concat(got, d, ras)
    return bad(m) if m else ok("concatenated" if order_eq else "concatenated-reordered", n > 1)


def _check_stacked(got, newdim, keys, ras):
    if not isinstance(got, DimArray):
        return "stack returned {}".format(common.describe(got))
    w = common.wellformed(got)
    if w:
        return "malformed stack result: " + w
    dims = list(ras[0].dims)
    if got.dims[0] != newdim or sorted(got.dims[1:]) != sorted(dims):
        return "stack dims {} expected ({!r}, + some order of {})".format(got.dims, newdim, dims)
    if not same_list(py(got.axes[0].values), keys):
        return "stack axis labels {} expected keys {}".format(py(got.axes[0].values), keys)
    for i, dn in enumerate(got.dims[1:], 1):
        lab = [R._hashable(l) for l in py(got.axes[i].values)]
        want = set()
        for r in ras:
            want |= set(R._hashable(l) for l in r.labels[r.dims.index(dn)])
        if len(lab) != len(set(lab)) or set(lab) != want:
            return "stack: labels of {!r} are {} expected the union {} each once".format(dn, lab, sorted(want, key=str))
    for pos in R.all_positions(got.values.shape):
        k = pos[0]
        coord = {dn: py(got.axes[i].values[pos[i]]) for i, dn in enumerate(got.dims) if i > 0}
        e = _lookup(ras[k], coord)
        v = got.values[pos]
        if e is None:
            if not common.isnan(py(v)):
                return "stack: slice {!r} at {} is {!r} but input {} has no such coordinate (expected NaN)".format(keys[k], coord, py(v), k)
        elif not same_scalar(v, e):
            return "stack: slice {!r} at {} is {!r} but input {} holds {!r} at these labels".format(keys[k], coord, py(v), k, py(e))
    return None


def _check_concat(got, d, ras):
    if not isinstance(got, DimArray):
        return "concatenate returned {}".format(common.describe(got))
    w = common.wellformed(got)
    if w:
        return "malformed concatenate result: " + w
    if sorted(got.dims) != sorted(ras[0].dims):
        return "concatenate dims {} expected some order of {}".format(got.dims, ras[0].dims)
    p = list(got.dims).index(d)
    want = []
    owner = []
    for k, r in enumerate(ras):
        for j, l in enumerate(r.labels[r.dims.index(d)]):
            want.append(l); owner.append((k, j))
    if not same_list(py(got.axes[p].values), want):
        return "concatenate: labels along {!r} are {} expected the concatenation {}".format(d, py(got.axes[p].values), want)
    for i, dn in enumerate(got.dims):
        if dn == d:
            continue
        lab = [R._hashable(l) for l in py(got.axes[i].values)]
        wantset = set()
        for r in ras:
            wantset |= set(R._hashable(l) for l in r.labels[r.dims.index(dn)])
        if len(lab) != len(set(lab)) or set(lab) != wantset:
            return "concatenate: labels of {!r} are {} expected {} each once".format(dn, lab, sorted(wantset, key=str))
    for pos in R.all_positions(got.values.shape):
        k, j = owner[pos[p]]
        r = ras[k]
        coord = {dn: py(got.axes[i].values[pos[i]]) for i, dn in enumerate(got.dims) if dn != d}
        # position along d inside block k, labels on the other dimensions
        rpos = []
        okk = True
        for i2, d2 in enumerate(r.dims):
            if d2 == d:
                rpos.append(j)
            else:
                q = R.first_match(r.labels[i2], coord[d2])
                if q is None:
                    okk = False
                    break
                rpos.append(q)
        v = got.values[pos]
        if not okk:
            if not common.isnan(py(v)):
                return "concatenate: block {} at {} is {!r} but the input has no such coordinate (expected NaN)".format(k, coord, py(v))
        elif not same_scalar(v, r.vals[tuple(rpos)]):
            return "concatenate: block {} ({}={!r}) at {} is {!r} but the input holds {!r}".format(k, d, want[pos[p]], coord, py(v), py(r.vals[tuple(rpos)]))
    return None


def snippet(case):
    return "from mc.props import c12\nprint(c12.check({!r}))".format(case)


def triage_sig(case, detail, klass):
    import re
    V = _V(case["fam"])
    return (klass, case["op"], "align=%s" % case.get("align"), case.get("cont"), "n=%d" % len(case["vars"]),
            re.sub(r"[-0-9.]+", "#", detail)[:110])


CLASSIFIERS = {}
