"""C09 - cumulative, difference and arg-extremum operations keep axis bookkeeping right.

clause -> observable -> oracle
  cumsum / cumprod == NumPy's cumulative result per fibre, all axes unchanged, last axis by default
  diff == NumPy's n-th difference per fibre; axis shortened by n and relabelled per scheme
        (backward drops the first n labels, forward the last n, centered takes successive midpoints);
        keepaxis keeps the original axis and pads NaN on the corresponding side
  argmin / argmax return labels such that indexing the array with them yields its minimum / maximum
        (whole array: tuple of labels; along an axis: array of labels of that axis)
Not covered: diff(axis=None), keepaxis together with the centered scheme (documented ValueError), skipna variants.
"""
import itertools
import numpy as np
from mc import common, domains as D, ref as R
from mc.engine import ok, bad, unspecified
from mc.common import call, Raised, DimArray, py, same_scalar, same_list

ID = "C09"
OEO = True      # a third of the cases get a second pass on the same array after an in-place edit (engine._oeo)
VARIANT_SWEEP = True      # thorough tier: every case on every history variant of its array (see mc/domains.py VSHIFT)
TITLE = "cumulative / diff / arg-extremum bookkeeping"
RULE = ("product of (numeric arrays 1-4D, operated axis of size 1-5 at every position, numeric sorted / unsorted and str labels, "
        "int and float data, ties and NaNs for arg-extrema) x {cumsum, cumprod (default / name / position), diff x n in {1,2,3} x "
        "scheme x keepaxis, argmin / argmax whole-array and per axis}; non-trivial = operated axis has more than one label")
ASSUMPTIONS = ["np.cumsum / np.cumprod / np.diff / np.min / np.max on 1-D fibres are the oracles (named by the property)"]
NAMES = ["x", "y", "z", "t"]


def bounds(tier):
    return {"max_ndim": 4, "op_axis_sizes": [1, 2, 3, 4, 5], "n": [1, 2, 3]}


AX = [("i", "inc"), ("i", "shuf"), ("f", "dec"), ("O", "shuf"), ("f", "inc")]
OTHERS = [("O", ["q", "p"]), ("i", [7, 3, 5]), ("f", [0.5, 1.5])]


def shards(tier):
    out = []
    k = 0
    for nd in (1, 2, 3, 4):
        for p in range(nd):
            for size in ([1, 2, 3, 5] if (tier == "quick" and nd > 1) else [1, 2, 3, 4, 5]):
                for v in (AX if nd <= 2 else AX[1:4]):
                    for vk in ("f", "i"):
                        if nd == 4 and (size > 3 or vk == "i"):
                            continue
                        out.append({"nd": nd, "p": p, "size": size, "v": v, "vk": vk, "k": k}); k += 1
    return out


def _spec(sh, nan=(), base=2):
    kind, order = sh["v"]
    labels, kinds = [], []
    o = list(OTHERS)
    for i in range(sh["nd"]):
        if i == sh["p"]:
            labels.append(D.labels_of(kind, sh["size"], order)); kinds.append(kind)
        else:
            kk, ll = o.pop(0)
            labels.append(ll); kinds.append(kk)
    return D.spec(NAMES[:sh["nd"]], labels, kinds, vk=sh["vk"], base=base, nan=nan, var=D.VARIANTS[sh["k"] % len(D.VARIANTS)],
                  attrs={"units": "s"})


def cases(sh, tier):
    s = _spec(sh)
    nd, p = sh["nd"], sh["p"]
    kind = sh["v"][0]
    axargs = [("name", NAMES[p]), ("pos", p)]
    if p == nd - 1:
        axargs.append(("default", None))
    for ak, ax in axargs:
        for f in ("cumsum", "cumprod"):
            yield {"a": s, "op": f, "axis": ax, "ak": ak, "p": p}
        for n in (1, 2, 3):
            for scheme in ("backward", "forward", "centered"):
                if scheme == "centered" and kind == "O":
                    continue
                for keep in (False, True):
                    yield {"a": s, "op": "diff", "axis": ax, "ak": ak, "p": p, "n": n, "scheme": scheme, "keepaxis": keep}
    if kind == "i" and nd <= 2 and sh["size"] >= 2:
        # 32-bit integer labels of large magnitude (seconds since the epoch, YYYYMMDDhh): the sum of two neighbours does not fit the label type
        big = dict(s, labels=[[2000000000 + 7 * l for l in lab] if i == p else lab for i, lab in enumerate(s["labels"])],
                   ldt=["int32" if i == p else None for i in range(nd)])
        big.pop("var", None)
        for n in (1, 2):
            for scheme in ("backward", "centered"):
                yield {"a": big, "op": "diff", "axis": NAMES[p], "ak": "name", "p": p, "n": n, "scheme": scheme, "keepaxis": False}
    if kind == "i" and nd <= 2 and sh["size"] >= 2 and min(s["labels"][p]) >= 0:
        # unsigned labels (uint8 / uint64) in any stored order: a step between two labels may be negative, which their own type cannot hold
        for ldt in ("uint8", "uint64"):
            if max(s["labels"][p]) > 255:
                continue
            us = dict(s, ldt=[ldt if i == p else None for i in range(nd)])
            us.pop("var", None)
            for n in (1, 2, 3):
                for scheme in ("backward", "forward", "centered"):
                    for keep in (False, True):
                        yield {"a": us, "op": "diff", "axis": NAMES[p] if n != 2 else p - nd, "ak": "name" if n != 2 else "pos", "p": p, "n": n, "scheme": scheme, "keepaxis": keep}
    if nd <= 2 and sh["vk"] == "i" and sh["size"] >= 3:
        # unsigned 64-bit values that go up AND down: NumPy's n-th difference is computed in the values' own (modular) arithmetic
        u = dict(s, vk="u8", enc="nl")
        for n in (1, 2, 3):
            for scheme in ("backward", "forward"):
                for keep in (False, True):
                    yield {"a": u, "op": "diff", "axis": NAMES[p], "ak": "name", "p": p, "n": n, "scheme": scheme, "keepaxis": keep}
    # arg-extrema: variants with ties and NaNs
    n = int(np.prod(D.shape_of(s)))
    variants = [("plain", s)]
    if sh["vk"] == "f":
        variants.append(("nan", _spec(sh, nan=(n // 2,))))
        variants.append(("nan0", _spec(sh, nan=(0,))))
    variants.append(("ties", dict(s, vk="b")))       # bool pattern: many ties
    for vn, sv in variants:
        for f in ("argmin", "argmax"):
            yield {"a": sv, "op": f, "axis": None, "ak": "whole", "p": p, "vn": vn}
            yield {"a": sv, "op": f, "axis": NAMES[p], "ak": "name", "p": p, "vn": vn}
            yield {"a": sv, "op": f, "axis": p, "ak": "pos", "p": p, "vn": vn}


def state_key(case):
    return case["a"]


def _fibres(ra, p):
    """yield (other-position tuple, list of fibre values along p)"""
    shape = ra.shape
    others = [i for i in range(ra.ndim) if i != p]
    for opos in R.all_positions([shape[i] for i in others]):
        vals = []
        for r in range(shape[p]):
            pos = [0] * ra.ndim
            for j, i in enumerate(others):
                pos[i] = opos[j]
            pos[p] = r
            vals.append(ra.vals[tuple(pos)])
        yield opos, vals


def _expect_along(ra, p, fn, newlabels):
    """apply fn (list -> list) to every fibre along p, new labels along p"""
    others = [i for i in range(ra.ndim) if i != p]
    shape = list(ra.shape)
    shape[p] = len(newlabels)
    out = np.empty(shape, dtype=float if ra.vals.dtype.kind != "O" else object)
    for opos, vals in _fibres(ra, p):
        res = fn(vals)
        assert len(res) == len(newlabels), (len(res), len(newlabels))
        for r, v in enumerate(res):
            pos = [0] * ra.ndim
            for j, i in enumerate(others):
                pos[i] = opos[j]
            pos[p] = r
            out[tuple(pos)] = v
    labels = list(ra.labels)
    labels[p] = list(newlabels)
    return R.RA(ra.dims, labels, out, ra.attrs)


def _ndiff(v, n, dtype):
    """NumPy's n-th difference of one fibre, in the values' own arithmetic for integer kinds (unsigned values wrap), as floats"""
    arr = np.array(v, dtype=dtype if np.dtype(dtype).kind in "iu" else float)
    return [float(x) for x in np.diff(arr, n=n)]


def check(case):
    s = case["a"]
    ra = D.build_ref(s)
    a = D.build_impl(s)
    before = common.snap(a)
    op, p = case["op"], case["p"]
    kw = {} if case["ak"] == "default" else {"axis": case["axis"]}
    size = ra.shape[p]
    nontrivial = size > 1
    if op in ("cumsum", "cumprod"):
        got = call(getattr(a, op), **kw)
        exp = _expect_along(ra, p, lambda v: list(getattr(np, op)(np.array(v, dtype=float))), ra.labels[p])
        if common.snap(a) != before:
            return bad(op + " modified its operand")
        if isinstance(got, Raised):
            return bad("{}({}) raised {}".format(op, kw, got), klass="unexpected-exception")
        m = D.compare(got, exp, rtol=1e-12)
        return bad("{}({}): {}".format(op, kw, m)) if m else ok(op, nontrivial)
    if op == "diff":
        n, scheme, keep = case["n"], case["scheme"], case["keepaxis"]
        if keep and scheme == "centered":
            call(a.diff, n=n, scheme=scheme, keepaxis=keep, **kw)
            return unspecified("centered-keepaxis")
        lab = ra.labels[p]
        m_ = min(n, size)
        if keep:
            newlab = list(lab)
            if scheme == "backward":
                fn = lambda v: [float("nan")] * m_ + _ndiff(v, n, ra.vals.dtype)
            else:
                fn = lambda v: _ndiff(v, n, ra.vals.dtype) + [float("nan")] * m_
        else:
            fn = lambda v: _ndiff(v, n, ra.vals.dtype)
            if scheme == "backward":
                newlab = list(lab[m_:])
            elif scheme == "forward":
                newlab = list(lab[:size - m_])
            else:
                newlab = list(lab)
                for _ in range(n):
                    newlab = [0.5 * (newlab[i] + newlab[i + 1]) for i in range(len(newlab) - 1)]
        exp = _expect_along(ra, p, fn, newlab)
        got = call(a.diff, n=n, scheme=scheme, keepaxis=keep, **kw)
        if common.snap(a) != before:
            return bad("diff modified its operand")
        if isinstance(got, Raised):
            return bad("diff(n={}, scheme={}, keepaxis={}, {}) on axis of size {} raised {}".format(n, scheme, keep, kw, size, got),
                       klass="unexpected-exception")
        m = D.compare(got, exp, rtol=1e-12)
        return bad("diff(n={}, scheme={}, keepaxis={}, {}): {}".format(n, scheme, keep, kw, m)) if m else ok("diff-" + scheme + ("-keep" if keep else ""), nontrivial)
    # arg extrema
    ext = np.min if op == "argmin" else np.max
    if case["ak"] == "whole":
        got = call(getattr(a, op))
        if common.snap(a) != before:
            return bad(op + " modified its operand")
        if isinstance(got, Raised):
            return bad("{}() raised {}".format(op, got), klass="unexpected-exception")
        want = ext(np.array([ra.vals[pos] for pos in R.all_positions(ra.shape)], dtype=float))
        if not isinstance(got, tuple) or len(got) != ra.ndim:
            return bad("{}() should return one label per dimension, got {!r}".format(op, py(got)))
        back = call(lambda: a[got])
        if isinstance(back, Raised):
            return bad("a[a.{}()] with labels {!r} raised {}".format(op, py(got), back))
        if not same_scalar(back, want):
            return bad("a[a.{}()] = {!r} with labels {!r}, but the {} is {!r}".format(op, py(back), py(got), op[3:], py(want)))
        return ok(op + "-whole", ra.vals.size > 1)
    got = call(getattr(a, op), axis=case["axis"])
    if common.snap(a) != before:
        return bad(op + " modified its operand")
    if isinstance(got, Raised):
        return bad("{}(axis={!r}) raised {}".format(op, case["axis"], got), klass="unexpected-exception")
    others = [i for i in range(ra.ndim) if i != p]
    if not others:
        lab = got.values[()] if isinstance(got, DimArray) else got
        labs = {(): lab}
    else:
        if not isinstance(got, DimArray) or list(got.dims) != [ra.dims[i] for i in others]:
            return bad("{}(axis={!r}) should have dims {}, got {}".format(op, case["axis"], [ra.dims[i] for i in others], common.describe(got)))
        w = common.wellformed(got)
        if w:
            return bad("malformed: " + w)
        for j, i in enumerate(others):
            if not same_list(py(got.axes[j].values), ra.labels[i]):
                return bad("{}(axis={!r}): labels of {} changed to {}".format(op, case["axis"], ra.dims[i], py(got.axes[j].values)))
        labs = {opos: got.values[opos] for opos in R.all_positions(got.values.shape)}
    for opos, vals in _fibres(ra, p):
        L = py(labs[opos])
        q = R.first_match(ra.labels[p], L)
        if q is None:
            return bad("{}(axis={!r}) returned {!r} at {} which is not a label of the axis {}".format(op, case["axis"], L, opos, ra.labels[p]))
        want = ext(np.array(vals, dtype=float))
        if not same_scalar(float(vals[q]), want):
            return bad("{}(axis={!r}) at {} returned label {!r} (value {!r}) but the {} of the fibre {} is {!r}".format(
                op, case["axis"], opos, L, py(vals[q]), op[3:], py(vals), py(want)))
    return ok(op + "-axis", nontrivial)


def snippet(case):
    return "from mc.props import c09\nprint(c09.check({!r}))".format(case)


def triage_sig(case, detail, klass):
    import re
    return (klass, case["op"], case["ak"], case.get("scheme"), "keep=%s" % case.get("keepaxis"), "n=%s" % case.get("n"),
            "size=%d" % len(case["a"]["labels"][case["p"]]), case["a"]["vk"], "nd=%d" % len(case["a"]["dims"]), re.sub(r"[-0-9.]+", "#", detail)[:70])


CLASSIFIERS = {}
