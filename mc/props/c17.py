"""C17 - axis-wise selection and missing-value handling keep slices with their labels.

clause -> observable -> oracle
  sort_axis: same labelled data, chosen axis ascending by label / by key          -> python sorted() permutation of slices
  take_axis / compress_axis select whole slices by label, position or mask          -> reference positions, slices copied by loops
  dropna(axis, minvalid): keeps, in original order, exactly the labels whose slice has no NaN
        (or at least minvalid valid values)                                       -> per-slice NaN count by loops
  fillna replaces exactly the NaN cells; setna sets to NaN exactly the cells equal to the value(s) / selected by the mask,
        promoting integer data to float                                           -> cell-by-cell
  every slice moves with its label, other axes left alone, operand unchanged unless inplace=True
Not covered: N-d compress() (returns a grouped point list), keys with ties, kind= argument of sort_axis.
"""
import itertools
import numpy as np
from mc import common, domains as D, ref as R
from mc.engine import ok, bad, unspecified
from mc.common import call, Raised, DimArray, py, same_scalar, same_list

ID = "C17"
OEO = True      # a third of the cases get a second pass on the same array after an in-place edit (engine._oeo)
VARIANT_SWEEP = True      # thorough tier: every case on every history variant of its array (see mc/domains.py VSHIFT)
TITLE = "axis-wise selection and missing values keep slices with labels"
RULE = ("product of (arrays 1-4D with unsorted int/float/str labels, int and float data, EVERY NaN pattern for arrays of <= 6 cells and "
        "structured patterns above) x (sort_axis default / callable key / dict key on every axis by name and position; take_axis by "
        "labels / positions with repeats and modes; compress_axis with every mask; dropna on every axis with minvalid in {None,0..slice "
        "size}; fillna; setna scalar / list / mask / mixed; inplace both ways); non-trivial = the operation changes the array")
ASSUMPTIONS = ["python sorted() for the ascending order; np.arange(n).take(ix, mode) for positional take modes (NumPy named by take_axis' doc)"]
NAMES = ["x", "y", "z", "t"]
AXS = {"x": [("i", [30, 10, 20]), ("f", [2.5, 0.5, 1.5]), ("O", ["c", "a", "b"]), ("i", [20, 10])],
       "y": [("O", ["q", "p"]), ("i", [7, 3, 5]), ("f", [1.5, 0.5])], "z": [("f", [0.5, 2.5]), ("i", [9, 8, 7])], "t": [("i", [2, 1])]}


def bounds(tier):
    return {"max_ndim": 3 if tier == "quick" else 4, "all_nan_patterns_up_to_cells": 6}


def _arrays(tier):
    out = []
    for xi in range(4):
        out.append([("x", xi)])
    for xi, yi in [(0, 0), (1, 1), (2, 2), (3, 1), (0, 1)]:
        out.append([("x", xi), ("y", yi)])
    for xi, yi, zi in [(3, 0, 0), (0, 2, 1), (2, 0, 0)]:
        out.append([("x", xi), ("y", yi), ("z", zi)])
    if tier != "quick":
        out.append([("x", 3), ("y", 0), ("z", 0), ("t", 0)])
        out.append([("y", 1), ("x", 2), ("t", 0), ("z", 1)])
    return out


def _patterns(n, shape, tier):
    if n <= 6:
        return [tuple(i for i in range(n) if (m >> i) & 1) for m in range(2 ** n)]
    pats = [(), (0,), (n // 2, n - 1), tuple(range(n))]
    idx = np.arange(n).reshape(shape)
    for ax in range(len(shape)):
        sl = [slice(None)] * len(shape); sl[ax] = 0
        pats.append(tuple(int(v) for v in idx[tuple(sl)].reshape(-1)))
        sl = [0] * len(shape); sl[ax] = slice(None)
        pats.append(tuple(int(v) for v in idx[tuple(sl)].reshape(-1)))
        if shape[ax] > 1:
            sl = [slice(None)] * len(shape); sl[ax] = slice(1, None)
            pats.append(tuple(int(v) for v in idx[tuple(sl)].reshape(-1)[:-1]))
    if tier != "quick":
        pats += [tuple(i for i in range(n) if (m * 2654435761 >> i) & 1) for m in range(1, 40)]
    return list(dict.fromkeys(pats))


def shards(tier):
    out = []
    k = 0
    for arr in _arrays(tier):
        dims = [d for d, i in arr]
        kinds = [AXS[d][i][0] for d, i in arr]
        labels = [AXS[d][i][1] for d, i in arr]
        shape = [len(l) for l in labels]
        n = int(np.prod(shape))
        for vk in ("f", "i", "f4", "i4") + (("u1", "i2") if len(shape) == 1 else ()):     # unsigned / narrow integer data: 1-D only (encoding < 128)
            pats = _patterns(n, shape, tier) if vk == "f" else ([()] if vk in ("i", "i4", "u1", "i2") else _patterns(n, shape, "quick")[:4])
            for nan in pats:
                out.append({"s": D.spec(dims, labels, kinds, vk=vk, base=7, nan=nan, var=D.VARIANTS[k % len(D.VARIANTS)], attrs={"u": 1})})
                k += 1
    return out


def cases(sh, tier):
    s = sh["s"]
    nd = len(s["dims"])
    has_nan = bool(s.get("nan"))
    nancount = len(s.get("nan", ()))
    light = nancount > 1 and nd >= 2   # selection ops do not depend on the NaN pattern: run them on a subset of patterns
    for p in range(nd):
        lab, kind = s["labels"][p], s["kinds"][p]
        n = len(lab)
        if not light:
            for axarg in (s["dims"][p], p):
                yield {"a": s, "op": "sort", "axis": axarg, "p": p, "key": None}
            yield {"a": s, "op": "sort", "axis": s["dims"][p], "p": p, "key": "neg" if kind != "O" else "rev"}
            yield {"a": s, "op": "sort", "axis": p, "p": p, "key": "dict"}
            takes = [("label", lab[::-1]), ("label", [lab[0], lab[-1], lab[0]]), ("label", [lab[-1]]), ("label", [lab[0], D.ABSENT_BETWEEN[kind]]),
                     ("position", [n - 1, 0]), ("position", [0, 0, n - 1]), ("position", [-1]), ("position", [0, n]), ("label", [])]
            for mode_ix, ix in takes:
                for axarg in (s["dims"][p], p):
                    yield {"a": s, "op": "take", "axis": axarg, "p": p, "indexing": mode_ix, "ix": ix, "mode": "raise"}
            for mode in ("clip", "wrap"):
                yield {"a": s, "op": "take", "axis": p, "p": p, "indexing": "position", "ix": [n, -1, 0, n + 1], "mode": mode}
            for m in range(2 ** n):
                yield {"a": s, "op": "compress", "axis": s["dims"][p] if m % 2 else p, "p": p, "mask": [(m >> i) & 1 == 1 for i in range(n)]}
                if m % 3 == 0:     # "take_axis and compress select whole slices by label, position or MASK": the same mask given to take_axis
                    yield {"a": s, "op": "compress", "axis": s["dims"][p], "p": p, "mask": [(m >> i) & 1 == 1 for i in range(n)], "via": "take_axis"}
        if s["vk"] in ("f", "f4"):
            slice_size = int(np.prod(D.shape_of(s))) // n
            mvs = [None] + (list(range(0, slice_size + 1)) if nd >= 2 else [])
            for mv in mvs:
                yield {"a": s, "op": "dropna", "axis": s["dims"][p] if (mv or 0) % 2 == 0 else p, "p": p, "minvalid": mv}
    if nd == 1 and s["vk"] in ("f", "f4"):
        yield {"a": s, "op": "dropna", "axis": None, "p": 0, "minvalid": None}   # default axis
    for inplace in (False, True):
        yield {"a": s, "op": "fillna", "value": -9.5 if s["vk"] in ("f", "f4") else -9, "inplace": inplace}
        vals = D.build_ref(s).vals.reshape(-1)
        v0, v1 = py(vals[0]), py(vals[-1])
        n = vals.size
        mask = [(i * 3 + 1) % 4 == 0 for i in range(n)]
        for what in (["scalar", v0], ["list", [v0, v1]], ["scalar", -12345], ["mask", mask], ["dimask", mask], ["mixed", [v1, mask]],
                     ["list", []], ["list", [v1]], ["maskfirst", [mask, v1, v0]], ["dimaskfirst", [mask, v0]]):
            yield {"a": s, "op": "setna", "what": what, "inplace": inplace}


def state_key(case):
    return case["a"]


def _take_slices(ra, p, positions, labels=None):
    shape = list(ra.shape)
    shape[p] = len(positions)
    out = np.empty(shape, dtype=ra.vals.dtype)
    for pos in R.all_positions(shape):
        src = list(pos); src[p] = positions[pos[p]]
        out[pos] = ra.vals[tuple(src)]
    labs = list(ra.labels)
    labs[p] = [ra.labels[p][q] for q in positions] if labels is None else labels
    return R.RA(ra.dims, labs, out, ra.attrs)


def check(case):
    s = case["a"]
    ra = D.build_ref(s)
    a = D.build_impl(s)
    before = common.snap(a)
    op = case["op"]
    if op == "sort":
        p = case["p"]
        lab = ra.labels[p]
        key = case["key"]
        if key is None:
            order = sorted(range(len(lab)), key=lambda i: lab[i]); kw = {}
        elif key == "neg":
            order = sorted(range(len(lab)), key=lambda i: -lab[i]); kw = {"key": lambda v: -v}
        elif key == "rev":
            order = sorted(range(len(lab)), key=lambda i: [-ord(c) for c in lab[i]]); kw = {"key": lambda v: [-ord(c) for c in v]}
        else:
            rank = {R._hashable(l): (i * 7) % 5 + i * 0.01 for i, l in enumerate(lab)}
            order = sorted(range(len(lab)), key=lambda i: rank[R._hashable(lab[i])])
            kw = {"key": {py(l): rank[R._hashable(l)] for l in lab}}
        got = call(a.sort_axis, axis=case["axis"], **kw)
        exp = _take_slices(ra, p, order)
        nontriv = order != list(range(len(lab)))
        what = "sort_axis(axis={!r}, key={})".format(case["axis"], key)
    elif op == "take":
        p = case["p"]
        lab = ra.labels[p]
        n = len(lab)
        ix = case["ix"]
        mode = case["mode"]
        positions = None
        raises = None
        if case["indexing"] == "label":
            positions = [R.first_match(lab, v) for v in ix]
            if any(q is None for q in positions):
                raises = IndexError
        else:
            try:
                positions = [int(q) for q in np.arange(n).take(ix, mode=mode)] if ix else []
            except IndexError:
                raises = IndexError
        arg = D.np_labels(ix, s["kinds"][p]) if case["indexing"] == "label" else list(ix)
        got = call(a.take_axis, arg, axis=case["axis"], indexing=case["indexing"], mode=mode)
        what = "take_axis({}, axis={!r}, indexing={}, mode={})".format(ix, case["axis"], case["indexing"], mode)
        if raises:
            if common.snap(a) != before:
                return bad(what + " modified its operand")
            if isinstance(got, Raised) and issubclass(got.cls, raises):
                return ok("take-raises")
            return bad("{}: expected {}, got {}".format(what, raises.__name__, common.describe(got)))
        exp = _take_slices(ra, p, positions)
        nontriv = positions != list(range(n))
    elif op == "compress":
        p = case["p"]
        mask = case["mask"]
        positions = [i for i, m in enumerate(mask) if m]
        if case.get("via") == "take_axis":
            # (as an ndarray, or - every second mask - as a plain list of bools)
            marg = np.array(mask, dtype=bool) if sum(mask) % 2 else [bool(m) for m in mask]
            got = call(a.take_axis, marg, axis=case["axis"])
            what = "take_axis(mask {}, axis={!r})".format(mask, case["axis"])
        else:
            got = call(a.compress_axis, np.array(mask, dtype=bool), axis=case["axis"])
            what = "compress_axis({}, axis={!r})".format(mask, case["axis"])
        exp = _take_slices(ra, p, positions)
        nontriv = not all(mask)
    elif op == "dropna":
        p = case["p"]
        n = ra.shape[p]
        others = [i for i in range(ra.ndim) if i != p]
        keep = []
        for q in range(n):
            nn, tot = 0, 0
            for opos in R.all_positions([ra.shape[i] for i in others]):
                pos = [0] * ra.ndim
                for j, i in enumerate(others):
                    pos[i] = opos[j]
                pos[p] = q
                tot += 1
                if common.isnan(py(ra.vals[tuple(pos)])):
                    nn += 1
            mv = case["minvalid"]
            if (nn == 0) if mv is None else (tot - nn >= mv):
                keep.append(q)
        kw = {}
        if case["axis"] is not None:
            kw["axis"] = case["axis"]
        if case["minvalid"] is not None:
            kw["minvalid"] = case["minvalid"]
        got = call(a.dropna, **kw)
        exp = _take_slices(ra, p, keep)
        nontriv = len(keep) != n
        what = "dropna({})".format(kw)
    elif op in ("fillna", "setna"):
        vals = ra.vals
        if op == "fillna":
            sel = [common.isnan(py(v)) for v in vals.reshape(-1)]
            newv = case["value"]
            got = call(a.fillna, newv, inplace=case["inplace"])
            what = "fillna({}, inplace={})".format(newv, case["inplace"])
        else:
            kind, arg = case["what"]
            flatv = [py(v) for v in vals.reshape(-1)]
            if kind == "scalar":
                sel = [same_scalar(v, arg) and not common.isnan(v) for v in flatv]; impl_arg = arg
            elif kind == "list":
                sel = [any(same_scalar(v, w) for w in arg) and not common.isnan(v) for v in flatv]; impl_arg = list(arg)
            elif kind in ("mask", "dimask"):
                sel = list(arg)
                impl_arg = np.array(arg, dtype=bool).reshape(vals.shape)
                if kind == "dimask":
                    impl_arg = DimArray(impl_arg, axes=[ax.copy() for ax in a.axes])
            elif kind in ("maskfirst", "dimaskfirst"):     # a list whose FIRST element is the mask, followed by values
                sel = [arg[0][i] or any(same_scalar(v, w) and not common.isnan(v) for w in arg[1:]) for i, v in enumerate(flatv)]
                m0 = np.array(arg[0], dtype=bool).reshape(vals.shape)
                if kind == "dimaskfirst":
                    m0 = DimArray(m0, axes=[ax.copy() for ax in a.axes])
                impl_arg = [m0] + list(arg[1:])
            else:
                sel = [(same_scalar(v, arg[0]) and not common.isnan(v)) or arg[1][i] for i, v in enumerate(flatv)]
                impl_arg = [arg[0], np.array(arg[1], dtype=bool).reshape(vals.shape)]
            newv = float("nan")
            arg_before = common.snap(impl_arg)
            got = call(a.setna, impl_arg, inplace=case["inplace"])
            if common.snap(impl_arg) != arg_before:
                return bad("setna({}, inplace={}) modified the value / mask argument passed to it".format(kind, case["inplace"]))
            what = "setna({}, inplace={})".format(case["what"][0], case["inplace"])
        out = np.array(vals, dtype=float if (op == "setna" and any(sel)) or vals.dtype.kind == "f" else vals.dtype)
        flat = out.reshape(-1)
        for i, sl in enumerate(sel):
            if sl:
                flat[i] = newv
        exp = R.RA(ra.dims, ra.labels, out, ra.attrs)
        nontriv = any(sel)
        if isinstance(got, Raised):
            return bad("{} raised {}".format(what, got), klass="unexpected-exception")
        if case["inplace"]:
            if got is not None:
                return bad("{} returned {} instead of None".format(what, common.describe(got)))
            target = a
        else:
            if common.snap(a) != before:
                return bad("{} modified its operand: {}".format(what, common.describe(a)))
            target = got
        m = D.compare(target, exp, what=what, attrs=True)
        if m:
            return bad(m)
        if op == "setna" and any(sel) and target.values.dtype.kind != "f":
            return bad("{}: dtype {} cannot hold NaN".format(what, target.values.dtype))
        return ok(op, nontriv)
    else:
        raise ValueError(op)
    if common.snap(a) != before:
        return bad(what + " modified its operand")
    if isinstance(got, Raised):
        return bad("{} raised {}".format(what, got), klass="unexpected-exception")
    m = D.compare(got, exp, what=what)
    return bad(m) if m else ok(op, nontriv)


def snippet(case):
    return "from mc.props import c17\nprint(c17.check({!r}))".format(case)


def triage_sig(case, detail, klass):
    import re
    return (klass, case["op"], "nd=%d" % len(case["a"]["dims"]), case["a"]["vk"], str(case.get("minvalid")), str(case.get("indexing")), re.sub(r"[-0-9.]+", "#", detail)[:100])


CLASSIFIERS = {}
