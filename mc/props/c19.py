"""C19 - serialisation round-trips: JSON and netCDF.

JSON (E1)      from_json(to_json(a)) restores values (NaN included), dims, labels and JSON-representable metadata; metadata that
               cannot be represented is skipped, not a crash; the written object is unchanged.
netCDF (E2)    explicit-state search over WRITE PROGRAMS (Dataset.write_nc, DimArray.write_nc with mode w / a / a+,
               open_nc(f, mode)[name] = array, formats NETCDF4 and NETCDF3_CLASSIC) executed through the vendored netCDF4 stand-in
               (mc/standin/netCDF4, real files on disk).  Reference = RefFile, a plain model of what every acknowledged write
               must have left in the file.  After every step read_nc(f) and read_nc(f, name) must equal the reference: values
               (NaN), dtype kind, per-variable dimension names and order, axis labels (numbers and strings), metadata at dataset,
               variable and axis level; variables written earlier survive appends; in-memory objects are unchanged by writing.
Assumption (explicit): fidelity of the stand-in to netCDF4-python for the API subset used by dimarray/io/nc.py.
Not covered: datetime axes, compression options, appending a variable whose labels conflict with an existing dimension
(netCDF semantics leave only a warning), key / dimension order at Dataset level.
"""
import os, json, shutil, tempfile, itertools, atexit
import numpy as np
from mc import common, domains as D, ref as R
from mc.engine import ok, bad, unspecified
from mc.common import call, Raised, DimArray, Dataset, Axis, da, py, same_list

ID = "C19"
TITLE = "serialisation round-trips: JSON and netCDF"
RULE = ("JSON: product of arrays 0-3D (float with NaN, int, bool, str values; int/float/str labels in any order; JSON-able and non "
        "JSON-able metadata).  netCDF: breadth-first search over write programs (about 45 events: 3 datasets x 2 formats, 8 arrays x "
        "names x modes w/a/a+, open_nc(...)[name]=array with modes a/w/r) from the no-file state, de-duplicated on the reference file "
        "content; the file is re-read and compared after every step; non-trivial = the step changed the file or was a refused write")
ASSUMPTIONS = ["the vendored netCDF4 stand-in (mc/standin/netCDF4) is faithful to netCDF4-python for the API subset used by dimarray/io/nc.py",
               "RefFile in mc/props/c19.py models what each acknowledged write leaves in the file"]

_TMP = None


def tmpdir():
    global _TMP
    scratch = os.environ.get("VERIF_SCRATCH") or None
    if _TMP is None or not os.path.isdir(_TMP) or (scratch and not _TMP.startswith(scratch)):
        _TMP = tempfile.mkdtemp(prefix="c19-", dir=scratch)
        atexit.register(shutil.rmtree, _TMP, True)
    return _TMP


def bounds(tier):
    return {"netcdf_program_depth": 3 if tier == "quick" else 4, "formats": ["NETCDF4", "NETCDF3_CLASSIC"],
            "alphabet": "full at every step" if tier != "quick" else "full at steps 1-2; step 3 restricted to NETCDF4 writes, modes w/a, names n1/a (plus all Dataset writes and open_nc assignments)"}


# ------------------------------------------------------------------------------------------
# pool of arrays / datasets
# ------------------------------------------------------------------------------------------
XL, YL, ZL, WL = [30, 10, 20], ["b", "a"], [2.5, 0.5], ["p", "q", "r"]


def _mk(dims, labels, kinds, vk, base, attrs=None, axattrs=None, nan=(), dtype=None):
    s = D.spec(dims, labels, kinds, vk=vk if vk != "S" else "O", base=base, attrs=attrs, axattrs=axattrs, nan=nan)
    a = D.build_impl(s)
    if dtype is not None:
        a = DimArray(a.values.astype(dtype), axes=[ax.copy() for ax in a.axes], **{})
        a.attrs.update(attrs or {})
    return a


def pool_array(aid):
    if aid == "A1":
        return _mk(["x", "y"], [XL, YL], ["i", "O"], "f", 1, {"units": "K", "scale": 2, "offs": 0.5, "lst": [1, 2]}, {"x": {"long": "X"}, "y": {"kind": "s"}}, nan=(1,))
    if aid == "A2":
        return _mk(["x"], [XL], ["i"], "i", 2, {"n": 3})
    if aid == "A3":
        return _mk(["z"], [ZL], ["f"], "i", 3, {"units": "m"}, {"z": {"pos": 1.5, "ndim": 0, "size": 3, "shape": "flat"}}, dtype=np.int32)   # (axis metadata named like array properties)
    if aid == "A4":
        return _mk([], [], [], "f", 4, {"note": "scalar"})
    if aid == "A5":
        return _mk(["y", "x"], [YL, XL], ["O", "i"], "S", 5, {"what": "names"})
    if aid == "A6":
        return _mk(["x", "y", "z"], [XL, YL, ZL], ["i", "O", "f"], "f", 6, {"units": "1"}, nan=(0, 7))
    if aid == "A7":
        return _mk(["x"], [XL], ["i"], "f", 7, {"units": "new"})
    if aid == "A8":
        return _mk(["w"], [WL], ["O"], "f", 8, {}, {"w": {"lab": ["u", "v"]}})
    if aid == "A9":
        return _mk(["z", "x"], [ZL, XL], ["f", "i"], "f", 9, {"k": 1.25}, nan=(2,))
    if aid == "A10":     # labels equal to netCDF's implicit 0..n-1 index, as floats, with axis metadata: must still be stored
        return _mk(["k"], [[0.0, 1.0, 2.0]], ["f"], "f", 10, {"units": "m"}, {"k": {"units": "m", "offset": 7}})
    if aid == "A11":     # the same with int labels, next to an ordinary axis
        return _mk(["m", "x"], [[0, 1], XL], ["i", "i"], "i", 11, {}, {"m": {"long_name": "member"}})
    if aid == "A12":     # declares a missing value: written as the variable's fill value - of THIS variable only
        return _mk(["x"], [XL], ["i"], "f", 12, {"missing_value": -999.0, "units": "mm"})
    if aid == "A13":     # an integer variable that legitimately holds the number another variable declares as missing
        a = _mk(["x"], [XL], ["i"], "i", 13, {"what": "counts"})
        a.values[0] = -999
        return a
    raise KeyError(aid)


ARRAYS = ["A1", "A2", "A3", "A4", "A5", "A6", "A7", "A8", "A9", "A10", "A11"]
HAS_STR = {"A1": True, "A5": True, "A6": True, "A8": True}     # str labels or values: NETCDF4 only
DATASETS = {"DS1": (["a:A1", "b:A2", "s:A4"], {"title": "T", "ver": 2, "hist": [1.5, 2.5]}),
            "DS2": (["c:A3", "d:A9"], {"title": "numeric"}),
            "DS3": (["v:A6", "u:A5"], {}),
            "DS4": (["p:A10", "q:A11", "b:A2"], {"title": "index-like axes"}),
            "DS5": (["fm:A12", "fn:A13", "g:A8"], {"title": "missing value declared by the first variable only"})}


def pool_dataset(did):
    items, attrs = DATASETS[did]
    ds = Dataset()
    for it in items:
        k, aid = it.split(":")
        ds[k] = pool_array(aid)
    ds.attrs.update(attrs)
    return ds


# ------------------------------------------------------------------------------------------
# reference file model
# ------------------------------------------------------------------------------------------
class RefFile(object):
    def __init__(self, fmt):
        self.fmt = fmt
        self.attrs = {}
        self.dims = {}      # name -> {"labels": [...], "attrs": {...}}
        self.vars = {}      # name -> {"dims": [...], "values": ndarray, "attrs": {...}, "kind": dtype kind}

    def canon(self):
        return common.digest((self.fmt, common.freeze(self.attrs), tuple((k, common.freeze(v)) for k, v in self.dims.items()),
                              tuple((k, tuple(v["dims"]), common.values_key(v["values"]), common.freeze(v["attrs"])) for k, v in sorted(self.vars.items()))))

    def add_array(self, name, a):
        """-> 'ok' | 'unspecified'"""
        for ax in a.axes:
            lab = py(ax.values)
            if ax.name in self.dims:
                if not same_list(self.dims[ax.name]["labels"], lab):
                    return "unspecified"
                # the coordinate variable already exists: "keeps what was already there" (its metadata is not rewritten)
            else:
                self.dims[ax.name] = {"labels": lab, "attrs": dict(ax.attrs)}
        vals = np.array(a.values, copy=True)
        if name in self.vars:
            if list(self.vars[name]["dims"]) != list(a.dims) or kind_of_dtype(self.vars[name]["values"].dtype) != kind_of_dtype(a.values.dtype):
                return "unspecified"     # re-writing a variable with other dimensions / another type: a netCDF variable's type is fixed
            at = dict(self.vars[name]["attrs"]); at.update(dict(a.attrs))
        else:
            at = dict(a.attrs)
        self.vars[name] = {"dims": list(a.dims), "values": vals, "attrs": at}
        return "ok"


def apply_ref(ref, ev):
    """-> (newref, verdict) with verdict in ok / error / unspecified ; ref None = no file"""
    k = ev[0]
    if k == "ds_write":
        ds = pool_dataset(ev[1])
        new = RefFile(ev[2])
        for ax in ds.axes:
            new.dims[ax.name] = {"labels": py(ax.values), "attrs": dict(ax.attrs)}
        for key in ds.keys():
            new.add_array(key, ds[key])
        new.attrs = dict(ds.attrs)
        return new, "ok"
    a = pool_array(ev[1])
    name, mode = ev[2], ev[3]
    if k == "da_write":
        fmt = ev[4]
        if mode == "w" or (mode == "a+" and ref is None):
            new = RefFile(fmt)
            new.add_array(name, a)
            return new, "ok"
        if mode == "a" and ref is None:
            return None, "error"
    else:   # open_set
        if mode == "w":
            new = RefFile("NETCDF4")
            new.add_array(name, a)
            return new, "ok"
        if ref is None:
            return None, "error"
        if mode == "r":
            return ref, "error"
    import copy
    new = copy.deepcopy(ref)
    if new.fmt.startswith("NETCDF3") and HAS_STR.get(ev[1]):
        return ref, "unspecified"
    v = new.add_array(name, a)
    if v != "ok":
        return ref, "unspecified"
    return new, "ok"


def apply_impl(path, ev):
    k = ev[0]
    if k == "ds_write":
        ds = pool_dataset(ev[1])
        snap = common.snap(ds)
        ds.write_nc(path, mode="w", format=ev[2])
        return ds, snap
    a = pool_array(ev[1])
    snap = common.snap(a)
    if k == "da_write":
        a.write_nc(path, ev[2], mode=ev[3], format=ev[4])
    else:
        o = da.open_nc(path, mode=ev[3])
        try:
            o[ev[2]] = a
        finally:
            o.close()
    return a, snap


def events_all(tier):
    ev = []
    for did in DATASETS:
        for fmt in ("NETCDF4", "NETCDF3_CLASSIC"):
            if fmt.startswith("NETCDF3") and did not in ("DS2", "DS4"):
                continue
            ev.append(["ds_write", did, fmt])
    for aid in ARRAYS:
        for mode in ("w", "a", "a+"):
            names = ["n1"] if mode == "w" else ["n1", "a", "c"]
            if tier == "quick" and mode == "a+" and aid not in ("A2", "A3", "A9"):
                continue
            for nm in names:
                for fmt in ("NETCDF4", "NETCDF3_CLASSIC"):
                    if fmt.startswith("NETCDF3") and (HAS_STR.get(aid) or mode == "a"):
                        continue
                    ev.append(["da_write", aid, nm, mode, fmt])
    for aid in ("A2", "A4", "A7", "A9", "A5"):
        for mode in ("a", "w", "r"):
            ev.append(["open_set", aid, "n2" if aid != "A7" else "b", mode])
    return ev


def kind_of_dtype(dt):
    k = np.dtype(dt).kind if dt is not str else "O"
    return {"U": "O", "S": "O", "u": "i"}.get(k, k)


def compare_var(got, rv, ref, what):
    if not isinstance(got, DimArray):
        if not rv["dims"] and common.same_scalar(got, rv["values"][()]):
            return None
        return "{}: expected an array with dims {}, got {}".format(what, rv["dims"], common.describe(got))
    if list(got.dims) != list(rv["dims"]):
        return "{}: dims {} expected {}".format(what, got.dims, rv["dims"])
    w = common.wellformed(got)
    if w:
        return "{}: malformed: {}".format(what, w)
    for i, d in enumerate(rv["dims"]):
        lab = py(got.axes[i].values)
        want = ref.dims[d]["labels"]
        if not same_list(lab, want):
            return "{}: labels of {} are {} expected {}".format(what, d, lab, want)
        if any(isinstance(a, str) != isinstance(b, str) or isinstance(a, float) != isinstance(b, float) for a, b in zip(lab, want)):
            return "{}: label kind of {} changed: {} vs {}".format(what, d, lab, want)
        ga = {k: py(v) for k, v in dict(got.axes[i].attrs).items()}
        wa = {k: py(v) for k, v in ref.dims[d]["attrs"].items()}
        if common.freeze(ga) != common.freeze(wa):
            return "{}: metadata of axis {} is {} expected {}".format(what, d, ga, wa)
    if not common.same_values(got.values, rv["values"]):
        return "{}: values {} expected {}".format(what, py(got.values), py(rv["values"]))
    wk = kind_of_dtype(rv["values"].dtype)
    gk = kind_of_dtype(got.values.dtype)
    if wk != gk and not (wk == "i" and gk == "f" and False):
        return "{}: dtype kind {} expected {}".format(what, got.values.dtype, rv["values"].dtype)
    ga = {k: py(v) for k, v in dict(got.attrs).items()}
    wa = {k: py(v) for k, v in rv["attrs"].items()}
    # a variable that declares missing_value is created with that fill value, which netCDF exposes as the attribute _FillValue on reading:
    # that one extra entry, equal to the declared value, is the file format's echo of the same metadata and is accepted
    if "_FillValue" in ga and "_FillValue" not in wa and "missing_value" in wa and common.same_scalar(ga["_FillValue"], wa["missing_value"]):
        ga = {k: v for k, v in ga.items() if k != "_FillValue"}
    if common.freeze(ga) != common.freeze(wa):
        return "{}: variable metadata {} expected {}".format(what, ga, wa)
    return None


def verify_file(path, ref, what):
    if ref is None:
        return None if not os.path.exists(path) else "{}: a file exists although no write was acknowledged".format(what)
    r = call(da.read_nc, path)
    if isinstance(r, Raised):
        return "{}: read_nc raised {}".format(what, r)
    if not isinstance(r, Dataset):
        return "{}: read_nc returned {}".format(what, common.describe(r))
    if sorted(r.keys()) != sorted(ref.vars):
        return "{}: variables in the file {} expected {}".format(what, sorted(r.keys()), sorted(ref.vars))
    for name, rv in ref.vars.items():
        m = compare_var(dict.__getitem__(r, name), rv, ref, "{}: read_nc(f)[{!r}]".format(what, name))
        if m:
            return m
        one = call(da.read_nc, path, name)
        if isinstance(one, Raised):
            return "{}: read_nc(f, {!r}) raised {}".format(what, name, one)
        m = compare_var(one, rv, ref, "{}: read_nc(f, {!r})".format(what, name))
        if m:
            return m
    ga = {k: py(v) for k, v in dict(r.attrs).items()}
    wa = {k: py(v) for k, v in ref.attrs.items()}
    if common.freeze(ga) != common.freeze(wa):
        return "{}: dataset metadata {} expected {}".format(what, ga, wa)
    return None


class Space(object):
    def initial(self, tier):
        return [[["nofile"]]]

    def events(self, hist, tier):
        ev = events_all(tier)
        if tier == "quick" and len(hist) >= 3:
            # quick tier: steps 1 and 2 use the whole alphabet; the third step only NETCDF4 writes without mode a+ and without name 'c'
            ev = [e for e in ev if not (e[0] == "da_write" and (e[3] == "a+" or e[2] == "c" or e[4] != "NETCDF4")) and not (e[0] == "ds_write" and e[2] != "NETCDF4")]
        return ev

    def run(self, hist):
        path = os.path.join(tmpdir(), "f%d_%d.nc" % (os.getpid(), abs(hash(json.dumps(hist))) % 10 ** 9))
        if os.path.exists(path):
            os.remove(path)
        ref = None
        changed = False
        try:
            for n, ev in enumerate(hist[1:]):
                last = n == len(hist) - 2
                newref, verdict = apply_ref(ref, ev)
                if verdict == "unspecified":
                    # what the append does to the variable being (re)written is not pinned down here, but two stated clauses still apply:
                    # the in-memory object is not changed, and every OTHER variable already in the file is kept as it was
                    res = call(apply_impl, path, ev)
                    if not isinstance(res, Raised) and common.snap(res[0]) != res[1]:
                        return bad("step {} {}: writing modified the in-memory object".format(n, ev))
                    if ref is not None and ev[0] != "ds_write":
                        for other, rv in ref.vars.items():
                            if other == ev[2]:
                                continue
                            one = call(da.read_nc, path, other)
                            if isinstance(one, Raised):
                                return bad("after {} (labels / type differ from the file's): read_nc(f, {!r}) of a variable that was already there raised {}".format(hist[1:], other, one))
                            m = compare_var(one, rv, ref, "after {} (labels / type differ from the file's): variable {!r} that was already there".format(hist[1:], other))
                            if m:
                                return bad(m)
                    return ok("unspecified", False, terminal=True, canon=None, unspecified=True)
                res = call(apply_impl, path, ev)
                if verdict == "error":
                    if not isinstance(res, Raised):
                        return bad("step {} {}: the write had to be refused (no file to append to / read-only handle) but returned normally".format(n, ev))
                    if last:
                        m = verify_file(path, ref, "after refused {}".format(ev))
                        if m:
                            return bad(m)
                        return ok("refused", True, canon=ref.canon() if ref else "nofile", terminal=True)
                    continue
                if isinstance(res, Raised):
                    return bad("step {} {} raised {}".format(n, ev, res), klass="unexpected-exception")
                obj, snap = res
                if common.snap(obj) != snap:
                    return bad("step {} {}: writing modified the in-memory object".format(n, ev))
                if last:
                    changed = (ref.canon() if ref else None) != newref.canon()
                ref = newref
            m = verify_file(path, ref, "after {}".format(hist[1:]))
            if m:
                return bad(m)
            return ok(hist[-1][0], changed, canon=ref.canon() if ref else "nofile")
        finally:
            if os.path.exists(path):
                os.remove(path)


SPACES = {"nc": Space()}


def bfs(tier, ctx):
    ctx.bfs("nc", bounds(tier)["netcdf_program_depth"], time_cap=300 if tier == "quick" else 2400)


# ------------------------------------------------------------------------------------------
# JSON (E1)
# ------------------------------------------------------------------------------------------
class _NoJson(object):
    def __repr__(self):
        return "<not json>"


JATTRS = [{}, {"units": "m", "n": 3, "f": 2.5, "lst": [1, "a", [2.5]], "nested": {"k": [1, 2]}, "none": None, "flag": True},
          {"ok": "yes", "bad": "NOJSON", "arr": "NDARRAY"},
          # ... the entries that JSON cannot represent FIRST and IN THE MIDDLE: every representable entry comes back, wherever it stands
          {"bad": "NOJSON", "ok": "yes", "arr": "NDARRAY", "n": 3},
          {"a": 1, "arr": "NDARRAY", "b": [1, 2], "bad": "NOJSON", "c": "z"},
          # metadata under the names of properties / methods of the array and of one of its dimensions
          {"size": "large", "shape": "round", "ndim": "two", "dims": "space", "mean": 2.5, "max": 5.0, "x": "longitude", "values": "v", "T": "t", "labels": "l"}]


def json_specs(tier):
    out = []
    k = 0
    for nd in range(0, 4):
        dims = ["x", "y", "z"][:nd]
        for variant in range(3 if nd else 1):
            kinds = [["i", "O", "f"], ["f", "i", "O"], ["O", "f", "i"]][variant][:nd]
            orders = [["shuf", "dec", "inc"], ["dec", "shuf", "dec"], ["inc", "inc", "shuf"]][variant][:nd]
            labels = [D.labels_of(kd, [3, 2, 2][i], od) for i, (kd, od) in enumerate(zip(kinds, orders))]
            for vk in "fibO":
                for ai in range(len(JATTRS)):
                    nan = (0,) if vk == "f" and (k % 2 == 0) else ()
                    out.append({"spec": D.spec(dims, labels, kinds, vk=vk, base=2, nan=nan, var=D.VARIANTS[k % len(D.VARIANTS)] if nd else "fresh"), "attrs": ai})
                    k += 1
    out.append({"spec": D.spec(["x"], [[]], ["i"], vk="f", base=1), "attrs": 1})
    # arrays without elements whose empty axis is not the last one (values.tolist() is [] whatever the other sizes)
    out.append({"spec": D.spec(["x", "y"], [[], ["a", "b", "c"]], ["i", "O"], vk="f", base=1), "attrs": 1})
    out.append({"spec": D.spec(["x", "y"], [[10, 20], []], ["i", "O"], vk="f", base=1), "attrs": 0})
    out.append({"spec": D.spec(["z", "x", "y"], [[0.5, 1.5], [], ["a", "b", "c"]], ["f", "i", "O"], vk="i", base=1), "attrs": 1})
    return out


def shards(tier):
    return [{"part": "json", "i": i} for i in range(0, len(json_specs(tier)), 12)]


def cases(sh, tier):
    specs = json_specs(tier)
    for i in range(sh["i"], min(sh["i"] + 12, len(specs))):
        for how in ("json", "jsondict", "json_indent"):
            yield {"part": "json", "i": i, "how": how}


def state_key(case):
    return case.get("i") if "i" in case else case["hist"][:1]


def check(case):
    it = json_specs("quick")[case["i"]]
    a = D.build_impl(it["spec"])
    ra = D.build_ref(it["spec"])
    attrs = dict(JATTRS[it["attrs"]])
    for k, v in list(attrs.items()):
        if v == "NOJSON":
            attrs[k] = _NoJson()
        elif v == "NDARRAY":
            attrs[k] = np.arange(3)
    a.attrs.update(attrs)
    before = common.snap(a)
    if case["how"] == "json":
        got = call(lambda: DimArray.from_json(a.to_json()))
    elif case["how"] == "json_indent":
        got = call(lambda: DimArray.from_json(a.to_json(indent=1, separators=(", ", ": "))))
    else:
        got = call(lambda: DimArray.from_jsondict(json.loads(json.dumps(a.to_jsondict()))))
    if common.snap(a) != before:
        return bad("to_json modified the array")
    if isinstance(got, Raised):
        return bad("JSON round trip ({}) raised {}".format(case["how"], got), klass="unexpected-exception")
    m = D.compare(got, ra, what="from_json(to_json(a))")
    if m:
        return bad(m)
    if ra.vals.dtype.kind in "fib" and got.values.dtype.kind != ra.vals.dtype.kind and ra.vals.size:
        return bad("JSON round trip changed the dtype kind from {} to {}".format(ra.vals.dtype, got.values.dtype))
    want = {}
    for k, v in attrs.items():
        try:
            json.dumps(v)
            want[k] = v
        except Exception:
            pass
    if common.freeze(json.loads(json.dumps(dict(got.attrs)))) != common.freeze(json.loads(json.dumps(want))):
        return bad("JSON round trip: metadata {} expected the JSON-representable part {}".format(dict(got.attrs), want))
    return ok("json", ra.vals.size > 0)


def snippet(case):
    if "hist" in case:
        return "from mc.props import c19\nprint(c19.SPACES['nc'].run({!r}))".format(case["hist"])
    return "from mc.props import c19\nprint(c19.check({!r}))".format(case)


def triage_sig(case, detail, klass):
    import re
    return (klass, case.get("how"), re.sub(r"[-0-9.]+", "#", detail)[:120])


CLASSIFIERS = {}
