"""C18 - interp_axis is per-fibre linear interpolation, exact at the nodes.

clause -> observable -> oracle
  for every 1-D fibre along the axis the result equals np.interp(new, labels, fibre) regardless of the stored label order
        -> values -> np.interp on the fibre sorted by label (the oracle the property names), rtol 1e-12
  original values at existing labels; left / right fill (NaN by default) outside the label range
  axis set to exactly `new`; other axes and metadata unchanged
  N-d, Dataset (variables lacking the axis untouched) and interp_like variants agree with the 1-D definition
Not covered: issorted=True on axes that are not increasing (caller's promise), non-numeric axes.
"""
import itertools
import numpy as np
from mc import common, domains as D, ref as R
from mc.engine import ok, bad, unspecified
from mc.common import call, Raised, DimArray, Dataset, Axis, py, same_scalar, same_list

ID = "C18"
OEO = ("decoy",)   # decoy pre-pass only (engine.safe_check): this check edits its array in place itself, so the generic second pass does not apply
VARIANT_SWEEP = True      # thorough tier: every case on every history variant of its array (see mc/domains.py VSHIFT)
TITLE = "interp_axis is per-fibre linear interpolation"
RULE = ("product of (float/int arrays 1-4D, interpolated axis at every position, numeric labels increasing / decreasing / every shuffle of "
        "length 1-4, non-linear cell values, also uint8 / float32 data and infinite values at and between nodes) x (new coordinate vectors sorted and unsorted with points below / on / between / above the "
        "labels, empty) x left/right in {default NaN, -1/-2} x issorted in {None, True on increasing axes}; Datasets whose variables "
        "partly lack the axis; interp_like templates; non-trivial = new differs from the axis labels")
ASSUMPTIONS = ["np.interp on the label-sorted fibre is the oracle (named by the property); rtol 1e-12"]
NAMES = ["x", "y", "z", "t"]
OTHERS = [("O", ["q", "p"]), ("i", [7, 3, 5]), ("f", [1.5, 0.5])]


def bounds(tier):
    return {"max_ndim": 4, "axis_lengths": [1, 2, 3, 4], "left_right": ["nan/nan", "-1/-2"]}


def _axis_variants(tier):
    out = []
    for kind in "if":
        base = D.BASE[kind]
        for n in (1, 2, 3, 4):
            perms = list(itertools.permutations(range(n)))
            if n == 4 and tier == "quick":
                perms = perms[::3]
            for pm in perms:
                out.append((kind, [base[q] for q in pm]))
    out.append(("f", [0.5, 1.0, 4.0]))      # unevenly spaced
    out.append(("i", [100, 10, 40]))
    return out


def _newvecs(lab, kind):
    s = sorted(lab)
    step = (10 if kind == "i" else 1.0)
    lo, hi = s[0] - step, s[-1] + step
    mids = [(s[i] + s[i + 1]) / 2.0 for i in range(len(s) - 1)]
    q = [s[0] + step * 0.25] if len(s) > 1 else []
    vs = {
        "identity": list(lab), "sorted_all": [lo] + sorted(s + mids + q) + [hi], "unsorted": ([hi] + mids[::-1] + [s[0], lo] + s[::-1]),
        "nodes_rev": s[::-1], "outside": [lo, hi], "empty": [], "single_mid": (mids[:1] or [s[0]]), "dup": [s[0], s[0], s[-1]],
    }
    return vs


def shards(tier):
    out = []
    k = 0
    for (kind, lab) in _axis_variants(tier):
        for nd in (1, 2, 3):
            for p in range(nd):
                if nd == 3 and len(lab) == 4 and tier == "quick":
                    continue
                out.append({"kind": kind, "lab": lab, "nd": nd, "p": p, "k": k}); k += 1
    for (kind, lab) in _axis_variants(tier)[::9]:
        out.append({"kind": kind, "lab": lab, "nd": 4, "p": 2, "k": k}); k += 1
    for j in range(6):
        out.append({"ds": j})
    return out


def _spec(sh):
    labels, kinds = [], []
    o = list(OTHERS)
    for i in range(sh["nd"]):
        if i == sh["p"]:
            labels.append(sh["lab"]); kinds.append(sh["kind"])
        else:
            kk, ll = o.pop(0)
            labels.append(ll); kinds.append(kk)
    return D.spec(NAMES[:sh["nd"]], labels, kinds, vk="f" if sh["k"] % 3 else "i", base=2, enc="nl", nan=(1, 6) if sh["k"] % 3 == 1 else (),
                  var=D.VARIANTS[sh["k"] % len(D.VARIANTS)], attrs={"units": "K", "n": 2})


def cases(sh, tier):
    if "ds" in sh:
        for c in _ds_cases(sh["ds"]):
            yield c
        return
    s = _spec(sh)
    p = sh["p"]
    inc = R.monotonic_dir(sh["lab"]) in (1, None)
    for name, new in _newvecs(sh["lab"], sh["kind"]).items():
        for lr in (None, [-1.0, -2.0], "edge"):
            for axarg in (NAMES[p], p):
                yield {"a": s, "p": p, "axis": axarg, "new": new, "nm": name, "lr": lr, "issorted": None, "form": "list"}
            if inc:
                yield {"a": s, "p": p, "axis": NAMES[p], "new": new, "nm": name, "lr": lr, "issorted": True, "form": "nd"}
            if new:
                # a second call with the SAME ndarray object as new coordinates after it was shifted in place / after the array's axis was
                # relabelled in place: the answer must follow the current coordinates and labels
                yield {"a": s, "p": p, "axis": NAMES[p], "new": new, "nm": name, "lr": lr, "issorted": None, "form": "nd", "again": "new_inplace"}
                yield {"a": s, "p": p, "axis": p, "new": new, "nm": name, "lr": lr, "issorted": None, "form": "nd", "again": "relabel_inplace"}
        yield {"a": s, "p": p, "axis": NAMES[p], "new": new, "nm": name, "lr": None, "issorted": None, "form": "like"}
        # the new coordinates given as an Axis object that NAMES the dimension, without axis= ("required unless values is an Axis")
        yield {"a": s, "p": p, "axis": None, "new": new, "nm": name, "lr": None, "issorted": None, "form": "axisobj"}
        if s["vk"] == "f" and name in ("identity", "nodes_rev", "dup", "sorted_all", "unsorted"):
            # an infinite value in the data: exact at its own node, fills outside, numpy.interp's answer between nodes
            yield {"a": s, "p": p, "axis": NAMES[p], "new": new, "nm": name, "lr": None, "issorted": None, "form": "list", "inf": 2}
            yield {"a": s, "p": p, "axis": p, "new": new, "nm": name, "lr": [-1.0, -2.0], "issorted": None, "form": "list", "inf": 0}
            yield {"a": s, "p": p, "axis": p, "new": new, "nm": name, "lr": None, "issorted": None, "form": "list", "inf": 5}
    # narrow data types: unsigned 8-bit integers (a decreasing step does not fit the type), single precision (the result is numpy.interp's,
    # i.e. computed in double precision)
    alt = dict(s, vk="u1") if s["vk"] == "i" else dict(s, vk="f4")
    for name, new in _newvecs(sh["lab"], sh["kind"]).items():
        yield {"a": alt, "p": p, "axis": NAMES[p], "new": new, "nm": name, "lr": None, "issorted": None, "form": "list"}


    # narrow / unsigned LABEL types (uint8, uint64, int8): differences between neighbouring labels wrap around in the labels' own type
    if sh["kind"] == "i" and len(sh["lab"]) >= 2 and sh["nd"] <= 2:
        for ldt in ("uint8", "uint64", "int8"):
            u = dict(s, ldt=[ldt if i == p else None for i in range(sh["nd"])])
            u.pop("var", None)
            for name, new in _newvecs(sh["lab"], sh["kind"]).items():
                if name in ("identity", "sorted_all", "unsorted", "outside"):
                    yield {"a": u, "p": p, "axis": NAMES[p] if ldt != "uint64" else p, "new": new, "nm": name, "lr": None if ldt != "int8" else [-1.0, -2.0],
                           "issorted": None, "form": "list"}


def _ds_cases(j):
    labs = [[20, 10, 30], [0.5, 1.5, 2.5], [30, 20, 10], [10, 30, 20, 40], [10], [1.5, 0.5]][j]
    kind = "f" if isinstance(labs[0], float) else "i"
    for name, new in _newvecs(labs, kind).items():
        for lr in (None, [-1.0, -2.0]):
            for axarg in ("x", 0):
                yield {"dsx": labs, "kind": kind, "axis": axarg, "new": new, "nm": name, "lr": lr}


def state_key(case):
    return case.get("a") or case.get("dsx")


UNPINNED = []      # filled by ref_interp: positions of the result the statement does not pin down (see there)


def ref_interp(ra, p, new, left, right):
    del UNPINNED[:]
    lab = ra.labels[p]
    order = sorted(range(len(lab)), key=lambda i: lab[i])
    xp = np.array([lab[i] for i in order], dtype=float)
    shape = list(ra.shape)
    shape[p] = len(new)
    out = np.empty(shape, dtype=float)
    others = [i for i in range(ra.ndim) if i != p]
    for opos in R.all_positions([ra.shape[i] for i in others]):
        fib = []
        for q in order:
            pos = [0] * ra.ndim
            for jj, i in enumerate(others):
                pos[i] = opos[jj]
            pos[p] = q
            fib.append(float(ra.vals[tuple(pos)]))
        with np.errstate(invalid="ignore"):
            res = np.interp(np.array(new, dtype=float), xp, np.array(fib), left=left, right=right) if len(new) else []
        hasinf = any(np.isinf(f) for f in fib)
        for r, v in enumerate(res):
            pos = [0] * ra.ndim
            for jj, i in enumerate(others):
                pos[i] = opos[jj]
            pos[p] = r
            out[tuple(pos)] = v
            # (between two nodes of a fibre holding an infinite value the result is numpy.interp's, as everywhere: the statement names it, and
            # the 1-D variant calls it - earlier versions of this check left those cells unpinned)
    labels = list(ra.labels)
    labels[p] = list(new)
    return R.RA(ra.dims, labels, out, ra.attrs)


def check(case):
    if "dsx" in case:
        return _check_ds(case)
    s = case["a"]
    ra = D.build_ref(s)
    a = D.build_impl(s)
    if case.get("inf") is not None and a.size:
        k = case["inf"] % a.size
        a.values.reshape(-1)[k] = np.inf if case["inf"] else -np.inf      # 'slice' variant: a.values may be a view, reshape(-1) of a view copies
        if a.values.reshape(-1)[k] != (np.inf if case["inf"] else -np.inf):
            a.values[np.unravel_index(k, a.shape)] = np.inf if case["inf"] else -np.inf
        ra.vals.reshape(-1)[k] = np.inf if case["inf"] else -np.inf
    before = common.snap(a)
    p, new = case["p"], case["new"]
    if case["lr"] == "edge":      # numpy.interp's own left=None / right=None: the first / last value of the fibre
        left, right = None, None
    else:
        left, right = (float("nan"), float("nan")) if case["lr"] is None else case["lr"]
    kw = {}
    if case["lr"] is not None:
        kw.update(left=left, right=right)
    if case["issorted"]:
        kw["issorted"] = True
    exp = ref_interp(ra, p, new, left, right)
    if case["form"] == "like":
        tmpl = DimArray(np.zeros((len(new), 2)), axes=[Axis(np.array(new, dtype=float), ra.dims[p]), Axis(np.array([1, 2]), "other")])
        got = call(a.interp_like, tmpl)
        what = "interp_like(template with {}={})".format(ra.dims[p], new)
    elif case["form"] == "axisobj":
        got = call(a.interp_axis, Axis(np.array(new, dtype=float), ra.dims[p]), **kw)
        what = "interp_axis(Axis({}, {!r}))".format(new, ra.dims[p])
    else:
        arg = list(new) if case["form"] == "list" else np.array(new, dtype=float)
        got = call(a.interp_axis, arg, axis=case["axis"], **kw)
        what = "interp_axis({}, axis={!r}, {})".format(new, case["axis"], kw)
    if common.snap(a) != before:
        return bad(what + " modified its operand")
    if isinstance(got, Raised):
        return bad("{} on labels {} raised {}".format(what, ra.labels[p], got), klass="unexpected-exception")
    if UNPINNED and isinstance(got, DimArray) and got.shape == exp.shape:
        got = got.copy()
        for pos in UNPINNED:
            got.values[pos] = exp.vals[pos]
    m = D.compare(got, exp, rtol=1e-12, attrs=True, what=what + " on labels {}".format(ra.labels[p]))
    if m:
        return bad(m)
    if case.get("again"):
        kind = s["kinds"][p]
        if case["again"] == "new_inplace":
            arg += 0.125
            new2, ra2 = [v + 0.125 for v in new], ra
        else:
            lab2 = [v + (1 if kind == "i" else 0.125) for v in ra.labels[p]]
            lab2 = lab2[1:] + lab2[:1]      # ... and in another ORDER (a sorted axis becomes unsorted, an unsorted one possibly sorted)
            for j, v in enumerate(lab2):
                a.axes[p][j] = v
            labels2 = list(ra.labels)
            labels2[p] = lab2
            new2, ra2 = list(new), R.RA(ra.dims, labels2, ra.vals, ra.attrs)
        exp2 = ref_interp(ra2, p, new2, left, right)
        got2 = call(a.interp_axis, arg, axis=case["axis"], **kw)
        what2 = "second call {} after {} ({} on labels {})".format(what, case["again"], new2, ra2.labels[p])
        if isinstance(got2, Raised):
            return bad("{} raised {}".format(what2, got2), klass="unexpected-exception")
        m = D.compare(got2, exp2, rtol=1e-12, attrs=True, what=what2)
        if m:
            return bad(m)
        return ok("interp-again", True)
    return ok("interp-" + case["form"], not same_list(new, ra.labels[p]))


def _check_ds(case):
    labs, kind = case["dsx"], case["kind"]
    n = len(labs)
    sv = D.spec(["x", "y"], [labs, ["q", "p"]], [kind, "O"], vk="f", base=3, enc="nl", attrs={"a": 1})
    sw = D.spec(["y"], [["q", "p"]], ["O"], vk="f", base=5, enc="nl")
    su = D.spec(["x"], [labs], [kind], vk="i", base=7, enc="nl")
    st = D.spec(["y", "x"], [["q", "p"], labs], ["O", kind], vk="f", base=9, enc="nl")
    ds = Dataset()
    for k, sp in (("v", sv), ("w", sw), ("u", su), ("t", st)):
        ds[k] = D.build_impl(sp)
    ds.attrs["title"] = "T"
    before = common.snap(ds)
    left, right = (float("nan"), float("nan")) if case["lr"] is None else case["lr"]
    kw = {} if case["lr"] is None else {"left": left, "right": right}
    new = case["new"]
    got = call(ds.interp_axis, list(new), axis=case["axis"], **kw)
    what = "Dataset.interp_axis({}, axis={!r}, {}) on labels {}".format(new, case["axis"], kw, labs)
    if common.snap(ds) != before:
        return bad(what + " modified the dataset")
    if isinstance(got, Raised):
        return bad("{} raised {}".format(what, got), klass="unexpected-exception")
    if not isinstance(got, Dataset) or list(got.keys()) != ["v", "w", "u", "t"]:
        return bad("{} returned {}".format(what, common.describe(got)))
    for k, sp in (("v", sv), ("w", sw), ("u", su), ("t", st)):
        r = D.build_ref(sp)
        exp = ref_interp(r, r.dims.index("x"), new, left, right) if "x" in r.dims else r
        m = D.compare(got[k], exp, rtol=1e-12, what="{}: variable {}".format(what, k))
        if m:
            return bad(m)
        for d in got[k].dims:
            if got[k].axes[d] is not got.axes[d]:
                return bad("{}: variable {} does not share the dataset axis {}".format(what, k, d))
    if "x" in got.dims and not same_list(py(got.axes["x"].values), new):
        return bad("{}: dataset axis x is {} expected exactly {}".format(what, py(got.axes["x"].values), new))
    if dict(got.attrs) != {"title": "T"}:
        return bad("{}: dataset attrs {} not carried".format(what, dict(got.attrs)))
    return ok("interp-dataset", not same_list(new, labs))


def snippet(case):
    return "from mc.props import c18\nprint(c18.check({!r}))".format(case)


def triage_sig(case, detail, klass):
    import re
    lab = case["a"]["labels"][case["p"]] if "a" in case else case["dsx"]
    return (klass, "ds" if "dsx" in case else case["form"], case["nm"], "lr" if case["lr"] else "", "n=%d" % len(lab),
            "nd=%s" % (len(case["a"]["dims"]) if "a" in case else "ds"), re.sub(r"[-0-9.]+", "#", detail)[:90])


CLASSIFIERS = {}
