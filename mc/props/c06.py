"""C06 - align() is a set union / intersection that neither invents nor loses data.

clause -> observable -> oracle
  outputs have identical axes on every shared (aligned) dimension          -> label vectors of all outputs having the dim
  = set union (outer) / intersection (inner) of the inputs' labels, each once -> python sets
  all inputs sorted in one direction -> result sorted in that direction; sort=True -> ascending
  each array keeps its values at its original labels, NaN at labels it did not have -> coordinate maps of input vs output
  dimensions an array lacks / dimensions not selected by axis= are left alone   -> dims, labels
  no input is modified                                                          -> snapshots
Not covered: label order of the result when inputs are not all sorted the same way (any order accepted),
strict=True, attrs of the outputs.
"""
import itertools
import numpy as np
from mc import common, domains as D, ref as R
from mc.engine import ok, bad, unspecified
from mc.common import call, Raised, DimArray, Dataset, py, same_scalar, same_list

ID = "C06"
TITLE = "align() is a set union / intersection"
RULE = ("all lists of 1-3 (thorough 4) inputs drawn from a pool of arrays/Datasets over {x,y} (every dimension presence and "
        "order; label vectors equal / permuted / decreasing / overlapping / nested / disjoint / empty / int-vs-float) x join in "
        "{outer,inner} x sort in {F,T} x axis in {None,x,y}; non-trivial = at least two inputs share a dimension with "
        "different label vectors, or sort=True reorders something")
ASSUMPTIONS = ["reference: python set union / intersection and coordinate maps (mc/ref.py)", "labels unique within an axis"]

LAB = {
    "x": {"inc": ("i", [10, 20, 30]), "shuf": ("i", [30, 10, 20]), "dec": ("i", [30, 20, 10]), "ovl": ("i", [20, 30, 40]),
          "nest": ("i", [20]), "disj": ("i", [40, 50]), "empty": ("i", []), "flt": ("f", [10.0, 20.0, 30.0]),
          "fovl": ("f", [20.0, 30.5]), "inc4": ("i", [10, 20, 30, 40]), "p4": ("i", [10, 30, 20, 40]), "p4b": ("i", [40, 20, 30, 10]), "decovl": ("i", [40, 30, 20]), "touch": ("i", [30, 40, 50]), "hi1": ("i", [50]),
          # integer labels that float32 cannot represent (dates written YYYYMMDD are of this size), next to a float axis sharing one of them
          "big": ("i", [20200101, 20200103, 20200102]), "fbig": ("f", [0.5, 20200103.0])},
    "y": {"inc": ("O", ["a", "b"]), "dec": ("O", ["b", "a"]), "ovl": ("O", ["b", "c"]), "empty": ("O", []), "shuf": ("O", ["c", "a", "b"])},
}


def bounds(tier):
    return {"max_inputs": 3 if tier == "quick" else 4, "dims": ["x", "y"], "joins": ["outer", "inner"], "sort": [False, True]}


def pool(tier):
    P = []

    def add(dims, variants, kind="da"):
        kinds, labels = [], []
        for d, v in zip(dims, variants):
            k, l = LAB[d][v]
            kinds.append(k); labels.append(l)
        n = len(P)
        cells = int(np.prod([len(l) for l in labels])) if labels else 1
        s = D.spec(dims, labels, kinds, vk="i" if n % 3 == 0 else "f", base=n + 2,
                   var=D.VARIANTS[n % len(D.VARIANTS)] if dims and cells else "fresh")
        P.append({"kind": kind, "s": s})

    for v in LAB["x"]:
        add(["x"], [v])
    for v in LAB["y"]:
        add(["y"], [v])
    for vx, vy in [("inc", "inc"), ("shuf", "dec"), ("ovl", "ovl"), ("dec", "shuf"), ("empty", "inc"), ("disj", "empty"),
                   ("flt", "inc"), ("nest", "ovl")]:
        add(["x", "y"], [vx, vy])
        add(["y", "x"], [vy, vx])
    add([], [])
    add(["x", "y"], ["shuf", "dec"], kind="ds")
    add(["x"], ["ovl"], kind="ds")
    add(["x", "y"], ["empty", "inc"], kind="ds")     # a Dataset whose x axis has no labels (everything requested from it is missing)
    return P


def shards(tier):
    P = pool(tier)
    out = [{"n": 1}]
    for i in range(len(P)):
        out.append({"n": 2, "i": i})
    idx3 = list(range(len(P))) if tier != "quick" else list(range(0, len(P), 2))
    for i in idx3:
        for j in idx3:
            out.append({"n": 3, "i": i, "j": j})
    if tier != "quick":
        small = list(range(0, len(P), 4))
        for i in small:
            for j in small:
                out.append({"n": 4, "i": i, "j": j})
    return out


def _opts():
    for join in ("outer", "inner"):
        for sort in (False, True):
            for axis in (None, "x", "y"):
                yield join, sort, axis


def cases(sh, tier):
    P = pool(tier)
    if sh["n"] == 1:
        lists = [[i] for i in range(len(P))]
    elif sh["n"] == 2:
        lists = [[sh["i"], j] for j in range(len(P))]
    elif sh["n"] == 3:
        ks = range(len(P)) if tier != "quick" else range(1, len(P), 2)
        lists = [[sh["i"], sh["j"], k] for k in ks]
    else:
        small = list(range(0, len(P), 4))
        lists = [[sh["i"], sh["j"], k, l] for k in small for l in small]
    for lst in lists:
        for join, sort, axis in _opts():
            yield {"in": lst, "join": join, "sort": sort, "axis": axis, "tier": tier}
            if sort:
                # the same inputs after they went through an ordinary align() once (whatever that call left on their Axis objects - a
                # cached ordering - must not change what the next call returns)
                yield {"in": lst, "join": join, "sort": sort, "axis": axis, "tier": tier, "used": True}
        # the user has switched the module-level default for [] indexing to positions: aligning is by label all the same
        if any(P[i]["kind"] == "ds" for i in lst) or len(lst) == 2:
            yield {"in": lst, "join": "outer", "sort": False, "axis": None, "tier": tier, "gopt": "position"}
            yield {"in": lst, "join": "inner", "sort": True, "axis": None, "tier": tier, "gopt": "position"}


def state_key(case):
    return case["in"]


def _build(item):
    s = item["s"]
    if item["kind"] == "da":
        return D.build_impl(s), [("", D.build_ref(s))]
    # Dataset with two variables: the spec'd array and its first-dimension-only companion
    a = D.build_impl(s)
    ds = Dataset()
    ds["v"] = a
    ra = D.build_ref(s)
    refs = [("v", ra)]
    if a.ndim == 2:
        s2 = dict(s, dims=s["dims"][:1], labels=s["labels"][:1], kinds=s["kinds"][:1], base=s["base"] + 50)
        s2.pop("var", None)
        ds["w"] = D.build_impl(s2)
        refs.append(("w", D.build_ref(s2)))
    return ds, refs


def _direction(labels):
    """'inc' / 'dec' / 'both' (len<=1) / None"""
    d = R.monotonic_dir(labels)
    return {None: "both", 1: "inc", -1: "dec", 0: None}[d]


def check(case):
    P = pool(case["tier"])
    items = [P[i] for i in case["in"]]
    built = [_build(it) for it in items]
    objs = [b[0] for b in built]
    before = [common.snap(o) for o in objs]
    join, sort, axis = case["join"], case["sort"], case["axis"]
    all_dims = []
    for o in objs:
        for d in o.dims:
            if d not in all_dims:
                all_dims.append(d)
    if axis is not None and axis not in all_dims:
        return unspecified("axis-not-present")
    if case.get("used"):
        call(da_align, objs, "outer", False, None)
    if case.get("gopt"):
        prev = common.da.rcParams["indexing.by"]
        common.da.rcParams["indexing.by"] = case["gopt"]
        try:
            got = call(da_align, objs, join, sort, axis)
        finally:
            common.da.rcParams["indexing.by"] = prev
    else:
        got = call(da_align, objs, join, sort, axis)
    for o, b in zip(objs, before):
        if common.snap(o) != b:
            return bad("align modified an input: now {}".format(common.describe(o)))
    if isinstance(got, Raised):
        return bad("align raised {}".format(got), klass="unexpected-exception")
    if not isinstance(got, (list, tuple)) or len(got) != len(objs):
        return bad("align returned {}".format(common.describe(got)))
    aligned = all_dims if axis is None else [axis]
    nontrivial = False
    # expected label set per aligned dimension
    for d in aligned:
        vecs = [list(o.axes[d].values.tolist()) for o in objs if d in o.dims]
        sets = [set(R._hashable(l) for l in v) for v in vecs]
        want = set.union(*sets) if join == "outer" else set.intersection(*sets)
        if any(not same_list(vecs[0], v) for v in vecs[1:]):
            nontrivial = True
        dirs = [_direction(v) for v in vecs]
        outs = [py(g.axes[d].values) for g in got if d in g.dims]
        for lab in outs:
            have = [R._hashable(l) for l in lab]
            if len(have) != len(set(have)):
                return bad("dimension {!r}: duplicated labels {} in an output (inputs {})".format(d, lab, vecs))
            if set(have) != want:
                return bad("dimension {!r}: output labels {} are not the {} {} of the inputs {}".format(
                    d, lab, join, sorted(want, key=str), vecs))
            if not same_list(lab, outs[0]):
                return bad("dimension {!r}: outputs carry different label vectors {} vs {}".format(d, outs[0], lab))
        if outs:
            lab = outs[0]
            od = _direction(lab)
            if sort:
                if od not in ("inc", "both"):
                    return bad("dimension {!r}: sort=True but labels are {}".format(d, lab))
                if any(dd not in ("inc", "both") for dd in dirs):
                    nontrivial = True
            else:
                definite = set(dd for dd in dirs if dd != "both")   # single-label / empty inputs have no direction
                if definite == {"inc"} and od not in ("inc", "both"):
                    return bad("dimension {!r}: all inputs increasing {} but result {}".format(d, vecs, lab))
                if definite == {"dec"} and od not in ("dec", "both"):
                    return bad("dimension {!r}: all inputs decreasing {} but result {}".format(d, vecs, lab))
    # per-array content
    for k, (o, g) in enumerate(zip(objs, got)):
        if type(g) is not type(o):
            return bad("output {} is a {} (input {})".format(k, type(g).__name__, type(o).__name__))
        pairs = []
        if isinstance(o, Dataset):
            if list(g.keys()) != list(o.keys()):
                return bad("output dataset keys {} != {}".format(list(g.keys()), list(o.keys())))
            for name, ra in built[k][1]:
                pairs.append((ra, g[name], "dataset variable " + name))
            for name in g.keys():
                for dd in g[name].dims:
                    if g[name].axes[dd] is not g.axes[dd]:
                        return bad("output dataset variable {} does not share the dataset axis {}".format(name, dd))
        else:
            pairs.append((built[k][1][0][1], g, "array %d" % k))
        for ra, ga, what in pairs:
            if not isinstance(ga, DimArray):
                return bad("{}: output is {}".format(what, common.describe(ga)))
            if tuple(ga.dims) != tuple(ra.dims):
                return bad("{}: dims {} changed to {}".format(what, ra.dims, ga.dims))
            w = common.wellformed(ga)
            if w:
                return bad("{}: malformed output: {}".format(what, w))
            for i, d in enumerate(ra.dims):
                if d not in aligned and not same_list(py(ga.axes[i].values), ra.labels[i]):
                    return bad("{}: untouched dimension {!r} changed from {} to {}".format(what, d, ra.labels[i], py(ga.axes[i].values)))
            m = R.coordmap(ra)
            src_sets = [set(R._hashable(l) for l in ra.labels[i]) for i in range(ra.ndim)]
            for pos in R.all_positions(ga.values.shape):
                coord = [R._hashable(py(ga.axes[i].values[pos[i]])) for i in range(ga.ndim)]
                key = frozenset(zip(ra.dims, coord))
                v = ga.values[pos]
                if key in m:
                    if not same_scalar(v, m[key]):
                        return bad("{}: value at {} is {!r}, original {!r}".format(what, dict(zip(ra.dims, coord)), py(v), py(m[key])))
                elif not common.isnan(py(v)):
                    return bad("{}: value at new coordinate {} is {!r}, expected NaN".format(what, dict(zip(ra.dims, coord)), py(v)))
    return ok("aligned" if nontrivial else "nothing-to-do", nontrivial=nontrivial)


def da_align(objs, join, sort, axis):
    return common.da.align(objs, join=join, sort=sort, axis=axis)


def snippet(case):
    return "from mc.props import c06\nprint(c06.check({!r}))".format(case)


def triage_sig(case, detail, klass):
    import re
    return (klass, "n=%d" % len(case["in"]), case["join"], "sort=%s" % case["sort"], "axis=%s" % case["axis"], re.sub(r"[-0-9.]+", "#", detail)[:90])


CLASSIFIERS = {}
