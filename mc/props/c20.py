"""C20 - on-disk netCDF access is equivalent to in-memory access  (through the vendored netCDF4 stand-in).

READS (E1, differential)   every file x variable x index menu (scalars, lists, masks, slices, dicts, tolerance, 0-d variables, str axes)
        x {label, position} x spellings {open_nc(f)[v][idx], .ix/.loc/.iloc/.sel/.isel, .read(indices=, indexing=, tol=),
        read_nc(f, v, indices=...), Dataset-level read_nc(f, indices=...) / open_nc(f).read(indices=...)}.
        Oracle: the same index applied with take() to the fully loaded array (read_nc(f, v)); when the in-memory index raises the
        on-disk one must raise too.  An index collapsing every dimension gives a 0-d DimArray on disk (documented) where memory
        gives a NumPy scalar: the value is compared and ndim == 0 required.
WRITES (E2)  BFS over sequences of on-disk assignments h[v][idx] = rhs / .ix[idx] = rhs (scalar, ndarray, DimArray RHS) and appends past
        the end of an unlimited dimension with supplied labels, the file being re-read after every step (through the open handle and
        after close / reopen).  Reference: the same assignment done with put() on the in-memory copy; appends = concatenation along the
        unlimited axis with the supplied labels.
MULTI-FILE (E1)  read_nc([f1, f2(, f3)], axis=new|existing, keys, align, sort) == stack_ds / concatenate_ds of the single-file reads
        (+ reindex_axis(keys) for an existing axis, as documented).
Assumption (explicit): fidelity of the stand-in, in particular of its orthogonal indexing rules.
"""
import os, json, shutil, tempfile, itertools, atexit
import numpy as np
from mc import common, domains as D, ref as R
from mc.engine import ok, bad, unspecified
from mc.common import call, Raised, DimArray, Dataset, Axis, da, py, same_list
from mc.ref import decode_ix
from mc.props import c19

ID = "C20"
TITLE = "on-disk netCDF access is equivalent to in-memory access"
RULE = ("reads: product of (3 files, every variable 0-d to 3-d, index menu per dimension in label and position mode incl. tolerance, "
        "pairs / triples of indexed dimensions) x 10 spellings; writes: breadth-first search over on-disk assignment / append programs "
        "(about 45 events, incl. DimArray pieces that carry other labels and metadata of their own; variable metadata compared) on a fixed-size and an unlimited-dimension file; multi-file: 2-3 files x secondary-axis variants x axis "
        "new/existing x keys x align x sort; non-trivial = the index selects something other than everything")
ASSUMPTIONS = ["the vendored netCDF4 stand-in (mc/standin/netCDF4) is faithful to netCDF4-python's orthogonal indexing and unlimited-dimension growth",
               "in-memory take()/put() are the reference (their own correctness is C01-C03)"]

_TMP = None


def tmpdir():
    global _TMP
    scratch = os.environ.get("VERIF_SCRATCH") or None
    if _TMP is None or not os.path.isdir(_TMP) or (scratch and not _TMP.startswith(scratch)):
        _TMP = tempfile.mkdtemp(prefix="c20-", dir=scratch)
        atexit.register(shutil.rmtree, _TMP, True)
    return _TMP


def bounds(tier):
    return {"write_program_depth": 3 if tier == "quick" else 4, "files": ["DS1", "DS3", "DS2"]}


_FILES = {}


def file_of(did):
    if did not in _FILES:
        path = os.path.join(tmpdir(), "%s_%d.nc" % (did, os.getpid()))
        c19.pool_dataset(did).write_nc(path, mode="w")
        _FILES[did] = path
    return _FILES[did]


VARS = {"DS1": ["a", "b", "s"], "DS3": ["v", "u"], "DS2": ["c", "d"]}
LABELS = {"x": ("i", c19.XL), "y": ("O", c19.YL), "z": ("f", c19.ZL), "w": ("O", c19.WL)}
VDIMS = {"a": ["x", "y"], "b": ["x"], "s": [], "v": ["x", "y", "z"], "u": ["y", "x"], "c": ["z"], "d": ["z", "x"]}


def lmenu(dim, small=False):
    kind, lab = LABELS[dim]
    ab = D.ABSENT_BETWEEN[kind]
    m = [["s", lab[0]], ["s", ab], ["l", lab[::-1]], ["l", [lab[-1], lab[-1]]], ["m", [i % 2 == 0 for i in range(len(lab))]],
         ["sl", lab[0], lab[1], None], ["sl", lab[1], None, None], ["l", []], ["nps", lab[-1]], ["full"],
         ["l", lab[1:] + lab[:1]], ["nd", lab[-1:] + lab[:-1]]]      # rotations: permutations that are not their own inverse
    return [m[0], m[2], m[4], m[5], m[9], m[10]] if small else m


def pmenu(dim, small=False):
    n = len(LABELS[dim][1])
    m = [["s", 0], ["s", -1], ["s", n], ["l", [n - 1, 0]], ["l", [0, 0]], ["m", [i % 2 == 1 for i in range(n)]], ["sl", 1, None, None],
         ["sl", None, None, 2], ["l", []], ["full"], ["l", list(range(1, n)) + [0]], ["l", [n - 1] + list(range(0, n - 1))]]
    if n >= 2:
        # negative positions inside lists: consecutive ones up to the last element, and a list crossing from the end to the start
        m += [["l", [-2, -1]], ["l", [-1, 0]], ["l", list(range(-n, 0))]]
    return [m[0], m[3], m[5], m[6], m[9], m[10]] + m[12:13] if small else m


LSP = ["getitem", "loc", "sel", "read", "read_nc"]
PSP = ["ix", "iloc", "isel", "readpos", "read_nc_pos"]


def shards(tier):
    out = []
    for did in VARS:
        for v in VARS[did]:
            out.append({"part": "read", "ds": did, "var": v})
        out.append({"part": "dsread", "ds": did})
    out.append({"part": "multi"})
    return out


def cases(sh, tier):
    if sh["part"] == "multi":
        for c in _multi_cases(tier):
            yield c
        return
    did = sh["ds"]
    if sh["part"] == "dsread":
        dims = []
        for v in VARS[did]:
            for d in VDIMS[v]:
                if d not in dims:
                    dims.append(d)
        for d in dims:
            for ix in lmenu(d):
                for sp in ("read_nc_ds", "handle_read", "handle_loc"):
                    yield {"part": "dsread", "ds": did, "idx": {d: ix}, "mode": "label", "sp": sp}
            for ix in pmenu(d):
                for sp in ("read_nc_ds", "handle_read", "handle_iloc"):
                    yield {"part": "dsread", "ds": did, "idx": {d: ix}, "mode": "position", "sp": sp}
        return
    v = sh["var"]
    dims = VDIMS[v]
    if not dims:
        for sp in ("getitem_all", "getitem_empty", "read", "ix", "read_nc"):
            yield {"part": "read", "ds": did, "var": v, "idx": {}, "mode": "label", "sp": sp}
        return
    small = len(dims) >= 3
    for mode, menu, sps in (("label", lmenu, LSP), ("position", pmenu, PSP)):
        for d in dims:
            for ix in menu(d):
                if ix[0] == "full":
                    continue
                for sp in sps:
                    yield {"part": "read", "ds": did, "var": v, "idx": {d: ix}, "mode": mode, "sp": sp}
                if mode == "position" and ix[0] in ("s", "l", "sl"):
                    # the file stays open while the user switches the module default for [] to positions: handle[name][idx] follows it
                    yield {"part": "read", "ds": did, "var": v, "idx": {d: ix}, "mode": mode, "sp": "getitem_optswitch"}
        if len(dims) >= 2:
            for combo in itertools.product(*[menu(d, small) for d in dims]):
                if sum(1 for ix in combo if ix[0] != "full") < 2:
                    continue
                for k, sp in enumerate(sps):
                    if small and k % 2:
                        continue
                    yield {"part": "read", "ds": did, "var": v, "idx": dict(zip(dims, combo)), "mode": mode, "sp": sp}
    # tolerance (numeric axes)
    for d in dims:
        kind, lab = LABELS[d]
        if kind in "if":
            step = 10 if kind == "i" else 1.0
            for q in (lab[0] + step / 4.0, lab[-1] - step / 4.0, lab[0] + step * 0.75 + 1000):
                for tol in (step / 2.0, step / 8.0, float("inf")):
                    for sp in ("read", "read_nc", "nloc" if tol == float("inf") else "read"):
                        yield {"part": "read", "ds": did, "var": v, "idx": {d: ["s", q]}, "mode": "label", "sp": sp, "tol": tol}
            # the tolerance together with an index on a str axis of the same variable (in memory the tolerance is ignored there)
            for d2 in dims:
                if LABELS[d2][0] == "O":
                    for sp in ("read", "read_nc"):
                        yield {"part": "read", "ds": did, "var": v, "idx": {d: ["s", lab[0] + step / 4.0], d2: ["s", LABELS[d2][1][0]]}, "mode": "label", "sp": sp, "tol": step / 2.0}
                        yield {"part": "read", "ds": did, "var": v, "idx": {d2: ["l", [LABELS[d2][1][-1]]]}, "mode": "label", "sp": sp, "tol": step / 2.0}


def state_key(case):
    return [case.get("ds"), case.get("var")] if "hist" not in case else case["hist"][:1]


def _dec(idx, mode):
    return {d: decode_ix(ix, "i" if mode == "position" else LABELS[d][0]) for d, ix in idx.items() if ix[0] != "full"}


def same_result(got, exp, what):
    if isinstance(exp, DimArray) and exp.ndim > 0:
        if not isinstance(got, DimArray):
            return "{}: expected an array with dims {}, got {}".format(what, exp.dims, common.describe(got))
        if tuple(got.dims) != tuple(exp.dims):
            return "{}: dims {} but in memory {}".format(what, got.dims, exp.dims)
        w = common.wellformed(got)
        if w:
            return "{}: malformed: {}".format(what, w)
        for ga, ea in zip(got.axes, exp.axes):
            if not same_list(py(ga.values), py(ea.values)):
                return "{}: labels of {} are {} but in memory {}".format(what, ga.name, py(ga.values), py(ea.values))
        if not common.same_values(got.values, exp.values):
            return "{}: values {} but in memory {}".format(what, py(got.values), py(exp.values))
        return None
    ev = exp.values[()] if isinstance(exp, DimArray) else exp
    if isinstance(got, DimArray):
        if got.ndim != 0:
            return "{}: expected a scalar / 0-d array, got {}".format(what, common.describe(got))
        gv = got.values[()]
    else:
        gv = got
    if not common.same_scalar(gv, ev):
        return "{}: {!r} but in memory {!r}".format(what, py(gv), py(ev))
    return None


def check(case):
    part = case["part"]
    if part == "multi":
        return _check_multi(case)
    path = file_of(case["ds"])
    mode = case["mode"]
    kw = _dec(case["idx"], mode)
    tol = case.get("tol")
    if part == "dsread":
        full = da.read_nc(path)
        exp = call(full.take, indices=dict(kw), indexing=mode)
        if case["sp"] == "read_nc_ds":
            got = call(da.read_nc, path, indices=dict(kw), indexing=mode)
        else:
            o = da.open_nc(path)
            try:
                if case["sp"] == "handle_read":
                    got = call(o.read, indices=dict(kw), indexing=mode)
                elif case["sp"] == "handle_loc":
                    got = call(lambda: o.loc[dict(kw)])
                else:
                    got = call(lambda: o.iloc[dict(kw)])
            finally:
                o.close()
        what = "dataset-level {} {} {}".format(case["sp"], mode, case["idx"])
        if isinstance(exp, Raised):
            return ok("raises-like-memory") if isinstance(got, Raised) else bad("{}: in memory raises {} but on disk returned {}".format(what, exp, common.describe(got)))
        if isinstance(got, Raised):
            return bad("{}: raised {} but in memory returns {}".format(what, got, common.describe(exp)), klass="unexpected-exception")
        if not isinstance(got, Dataset) or sorted(got.keys()) != sorted(exp.keys()):
            return bad("{}: returned {} expected variables {}".format(what, common.describe(got), sorted(exp.keys())))
        for k in exp.keys():
            m = same_result(dict.__getitem__(got, k), dict.__getitem__(exp, k), "{}: variable {}".format(what, k))
            if m:
                return bad(m)
        if common.freeze({k: py(v) for k, v in dict(got.attrs).items()}) != common.freeze({k: py(v) for k, v in dict(full.attrs).items()}):
            return bad("{}: dataset metadata {} vs {}".format(what, dict(got.attrs), dict(full.attrs)))
        return ok("dsread")
    v = case["var"]
    dims = VDIMS[v]
    mem = da.read_nc(path, v)
    tkw = {} if tol is None else {"tol": tol}
    if not dims:
        exp = mem
    else:
        exp = call(mem.take, dict(kw), indexing=mode, **tkw)
    sp = case["sp"]
    tup = tuple(kw.get(d, slice(None)) for d in dims)
    one = tup[0] if len(tup) == 1 else tup
    o = None
    try:
        if sp in ("read_nc", "read_nc_pos"):
            got = call(da.read_nc, path, v, indices=dict(kw), indexing=mode, **tkw)
        else:
            o = da.open_nc(path)
            h = o[v]
            if sp == "getitem_optswitch":
                call(lambda: h[py(mem.axes[0].values[0])])       # a first, label-mode access through the handle
                prev = da.rcParams["indexing.by"]
                da.rcParams["indexing.by"] = "position"
                try:
                    got = call(lambda: o[v][one])
                finally:
                    da.rcParams["indexing.by"] = prev
            elif sp == "getitem":
                got = call(lambda: h[one])
            elif sp == "getitem_all":
                got = call(lambda: h[:])
            elif sp == "getitem_empty":
                got = call(lambda: h[()])
            elif sp == "loc":
                got = call(lambda: h.loc[one])
            elif sp == "nloc":
                got = call(lambda: h.nloc[one])
            elif sp == "sel":
                got = call(lambda: h.sel(**kw))
            elif sp == "read":
                got = call(h.read, indices=dict(kw), indexing="label", **tkw) if dims else call(h.read)
            elif sp == "ix":
                got = call(lambda: h.ix[one]) if dims else call(lambda: h.ix[()])
            elif sp == "iloc":
                got = call(lambda: h.iloc[one])
            elif sp == "isel":
                got = call(lambda: h.isel(**kw))
            elif sp == "readpos":
                got = call(h.read, indices=dict(kw), indexing="position")
            else:
                raise ValueError(sp)
    finally:
        if o is not None:
            o.close()
    what = "{}[{!r}] {} {} {}{}".format(case["ds"], v, sp, mode, case["idx"], " tol=%s" % tol if tol is not None else "")
    nontrivial = bool(kw)
    if isinstance(exp, Raised):
        if isinstance(got, Raised):
            return ok("raises-like-memory", nontrivial)
        return bad("{}: the in-memory index raises {} but the on-disk read returned {}".format(what, exp, common.describe(got)))
    if isinstance(got, Raised):
        return bad("{}: raised {} but the in-memory index returns {}".format(what, got, common.describe(exp)), klass="unexpected-exception")
    m = same_result(got, exp, what)
    return bad(m) if m else ok("read", nontrivial)


# ------------------------------------------------------------------------------------------
# multi-file reads
# ------------------------------------------------------------------------------------------
def _multi_cases(tier):
    for n in (2, 3):
        for variant in ("equal", "yperm", "ydisj", "xdisj"):
            for axis in ("s", "x"):
                for keys in (None, "given"):
                    for align in (False, True):
                        for sort in ((False, True) if align else (False,)):
                            for names in (None, "a", ["a", "b"], ["a", "c"], ["c", "h"] if axis == "s" else "c"):
                                for how in ("list", "glob"):
                                    yield {"part": "multi", "n": n, "variant": variant, "axis": axis, "keys": keys, "align": align, "sort": sort,
                                           "names": names, "how": how}


def _multi_files(n, variant):
    d = os.path.join(tmpdir(), "m_%s_%d_%d" % (variant, n, os.getpid()))
    paths = [os.path.join(d, "m%d.nc" % i) for i in range(n)]
    if not os.path.isdir(d):
        os.makedirs(d)
        for i, p in enumerate(paths):
            xl, yl = [30, 10, 20], ["b", "a"]
            if i > 0:
                if variant == "yperm":
                    yl = ["a", "b"]
                elif variant == "ydisj":
                    yl = ["c", "d"] if i == 1 else ["e", "b"]
                elif variant == "xdisj":
                    xl = [40 + 100 * i, 60 + 100 * i, 50 + 100 * i]
            a = D.build_impl(D.spec(["x", "y"], [xl, yl], ["i", "O"], vk="f", base=1 + i, attrs={"units": "K"}))
            b = D.build_impl(D.spec(["x"], [xl], ["i"], vk="i", base=5 + i))
            # variables of another layout than the file's dimension order (x, y): transposed, and lacking the first dimension
            c = D.build_impl(D.spec(["y", "x"], [yl, xl], ["O", "i"], vk="f", base=9 + i))
            h = D.build_impl(D.spec(["y"], [yl], ["O"], vk="f", base=13 + i))
            ds = Dataset([("a", a), ("b", b), ("c", c), ("h", h)])
            ds.attrs["run"] = i
            ds.write_nc(p, mode="w")
    return d, paths


def _check_multi(case):
    d, paths = _multi_files(case["n"], case["variant"])
    n = case["n"]
    axis = case["axis"]
    keys = None
    if case["keys"] == "given":
        keys = ["k%d" % i for i in range(n)] if axis == "s" else None
    kw = {"axis": axis, "align": case["align"]}
    if case["sort"]:
        kw["sort"] = True
    if keys is not None:
        kw["keys"] = keys
    names = case["names"]
    singles = [call(da.read_nc, p, names if not isinstance(names, str) else [names]) for p in paths]
    if any(isinstance(s, Raised) for s in singles):
        return bad("single-file read raised {}".format([s for s in singles if isinstance(s, Raised)][0]))
    if axis == "s":
        ekeys = keys if keys is not None else [os.path.splitext(p)[0] for p in paths]
        exp = call(da.stack_ds, singles, axis="s", keys=ekeys, align=case["align"], **({"sort": True} if case["sort"] else {}))
    else:
        exp = call(da.concatenate_ds, singles, axis="x", align=case["align"], **({"sort": True} if case["sort"] else {}))
        if case["keys"] == "given" and not isinstance(exp, Raised):
            rk = py(exp.axes["x"].values)[::-1][:4]
            kw["keys"] = rk
            exp = call(exp.reindex_axis, rk, axis="x")
    arg = list(paths) if case["how"] == "list" else os.path.join(d, "m*.nc")
    got = call(da.read_nc, arg, names, **kw)
    what = "read_nc({} files [{}], names={!r}, {})".format(n, case["variant"], names, kw)
    if isinstance(exp, Raised) and isinstance(got, Raised) and (case["keys"] != "given" or axis == "s"):
        # the Dataset-level join shares code with the multi-file read: when joining the single-file ARRAYS works for every variable,
        # the multi-file read must work as well
        kw2 = dict(align=case["align"], **({"sort": True} if case["sort"] else {}))
        allok = True
        for k in singles[0].keys():
            arrs = [dict.__getitem__(s, k) for s in singles]
            e2 = call(da.stack, arrs, axis="s", keys=ekeys, **kw2) if axis == "s" else call(da.concatenate, arrs, axis="x", **kw2)
            allok = allok and not isinstance(e2, Raised)
        if allok:
            return bad("{}: raised {} although joining the single-file arrays of every variable works".format(what, got), klass="unexpected-exception")
    if isinstance(exp, Raised):
        return ok("raises-like-join") if isinstance(got, Raised) else bad("{}: joining the single reads raises {} but the multi-file read returned {}".format(what, exp, common.describe(got)))
    if isinstance(got, Raised):
        return bad("{}: raised {} but joining the single-file reads works".format(what, got), klass="unexpected-exception")
    if isinstance(names, str):
        m = same_result(got, dict.__getitem__(exp, names), what)
        if not m and (case["keys"] != "given" or axis == "s"):
            arrs = [dict.__getitem__(s, names) for s in singles]
            kw2 = dict(align=case["align"], **({"sort": True} if case["sort"] else {}))
            e2 = call(da.stack, arrs, axis="s", keys=ekeys, **kw2) if axis == "s" else call(da.concatenate, arrs, axis="x", **kw2)
            if not isinstance(e2, Raised):
                m = same_result(got, e2, what + " vs joining the single-file arrays")
        return bad(m) if m else ok("multi-var")
    if not isinstance(got, Dataset) or sorted(got.keys()) != sorted(exp.keys()):
        return bad("{}: returned {}".format(what, common.describe(got)))
    for k in exp.keys():
        m = same_result(dict.__getitem__(got, k), dict.__getitem__(exp, k), "{}: variable {}".format(what, k))
        if m:
            return bad(m)
    # "equals reading each file and stacking / concatenating the results": also variable by variable at the DimArray level (the Dataset-level
    # join used above shares code with the multi-file read)
    if case["keys"] != "given" or axis == "s":
        for k in exp.keys():
            arrs = [dict.__getitem__(s, k) for s in singles]
            if axis == "s":
                e2 = call(da.stack, arrs, axis="s", keys=ekeys, align=case["align"], **({"sort": True} if case["sort"] else {}))
            elif "x" in arrs[0].dims:
                e2 = call(da.concatenate, arrs, axis="x", align=case["align"], **({"sort": True} if case["sort"] else {}))
            else:
                continue
            if isinstance(e2, Raised):
                continue
            m = same_result(dict.__getitem__(got, k), e2, "{}: variable {} vs joining the single-file arrays".format(what, k))
            if m:
                return bad(m)
    return ok("multi-ds")


# ------------------------------------------------------------------------------------------
# writes (E2)
# ------------------------------------------------------------------------------------------
TL = [2000.0, 2001.0]


def predecessor_file(kind, path):
    """another file that lived at the SAME path before (same variables, dimensions and sizes, other labels), opened, read by label and removed:
    nothing the library learnt about it may be applied to the file that takes its place"""
    xl2 = c19.XL[1:] + c19.XL[:1]
    if kind == "fixed":
        ds = c19.pool_dataset("DS1")
        ds.set_axis(np.array(xl2), axis="x")
        ds.write_nc(path, mode="w")
    else:
        tl2 = [t + 0.5 for t in TL]
        o = da.open_nc(path, "w")
        o.axes.append("time", None)
        o.axes.append(Axis(np.array(xl2), "x"))
        o["v"] = DimArray(np.arange(6.).reshape(2, 3) + 900, axes=[Axis(np.array(tl2), "time"), Axis(np.array(xl2), "x")])
        o["t1"] = DimArray(np.array([1., 2.]), axes=[Axis(np.array(tl2), "time")])
        o["w"] = DimArray(np.arange(6.).reshape(3, 2) + 950, axes=[Axis(np.array(xl2), "x"), Axis(np.array(tl2), "time")])
        o.close()
    o = da.open_nc(path)
    try:
        for k in list(o.keys()):
            h = o[k]
            for d in h.dims:
                call(lambda: h.read({d: py(o.axes[d].values[0])}))
                call(lambda: h.read({d: [py(x) for x in o.axes[d].values[:2]]}))
    finally:
        o.close()
    call(da.read_nc, path)
    os.remove(path)


def make_file(kind, path):
    """-> dict var -> in-memory reference DimArray"""
    if kind == "fixed":
        c19.pool_dataset("DS1").write_nc(path, mode="w")
    else:
        o = da.open_nc(path, "w")
        o.axes.append("time", None)
        o.axes.append(Axis(np.array(c19.XL), "x"))
        o["v"] = DimArray(np.arange(6.).reshape(2, 3) + 100, axes=[Axis(np.array(TL), "time"), Axis(np.array(c19.XL), "x")])
        o["t1"] = DimArray(np.array([7., 8.]), axes=[Axis(np.array(TL), "time")])
        # the unlimited dimension is not the first one of this variable
        o["w"] = DimArray(np.arange(6.).reshape(3, 2) + 300, axes=[Axis(np.array(c19.XL), "x"), Axis(np.array(TL), "time")])
        o.close()
    full = da.read_nc(path)
    return {k: dict.__getitem__(full, k) for k in full.keys()}


def write_events(kind):
    ev = []
    if kind == "fixed":
        for ix in (["s", 10], ["l", [20, 30]], ["m", [True, False, True]], ["sl", 10, None, None], ["full"]):
            for rhs in ("scalar", "array"):
                ev.append(["set", "a", "label", {"x": ix}, rhs])
        ev.append(["set", "a", "label", {"x": ["s", 10], "y": ["s", "a"]}, "scalar"])
        ev.append(["set", "a", "label", {"x": ["l", [30, 10]], "y": ["l", ["a"]]}, "array"])
        ev.append(["set", "a", "label", {"y": ["s", "b"]}, "dimarray"])
        ev.append(["set", "a", "label", {"x": ["s", 25]}, "scalar"])               # absent label: must raise, nothing written
        for ix in (["s", 0], ["s", -1], ["l", [2, 0]], ["sl", 1, None, None], ["m", [False, True, True]]):
            for rhs in ("scalar", "array"):
                ev.append(["set", "a", "position", {"x": ix}, rhs])
        ev.append(["set", "a", "position", {"x": ["s", 1], "y": ["s", 0]}, "scalar"])
        ev.append(["set", "b", "label", {"x": ["l", [10, 20]]}, "array"])
        ev.append(["set", "b", "position", {"x": ["sl", None, 2, None]}, "scalar"])
        ev.append(["set", "b", "label", {"x": ["full"]}, "dimarray"])
        ev.append(["set", "s", "label", {}, "scalar"])
        # the assigned value is a DimArray that carries OTHER labels and metadata of its own (a piece cut out of another array): in memory an
        # assignment takes its values only - the labels and the metadata of the target stay what they are
        ev.append(["set", "a", "label", {"x": ["l", [20, 30]]}, "dimarray_other"])
        ev.append(["set", "b", "position", {"x": ["l", [1, 0]]}, "dimarray_other"])
    else:
        ev.append(["append", "v", 1, "dimarray"])
        ev.append(["append", "v", 2, "dimarray"])
        ev.append(["append", "t1", 1, "dimarray"])
        ev.append(["append_row", "w", 10])      # w.ix[<x=10>, n] = labelled value: scalar index on the dimension BEFORE the unlimited one
        ev.append(["append_row", "w", 30])
        ev.append(["append_cols", "w", 2])      # w.ix[:, n:n+2] = labelled block
        for ix in (["s", 0], ["s", -1], ["l", [1, 0]]):
            ev.append(["set", "v", "position", {"time": ix}, "scalar"])
            ev.append(["set", "v", "position", {"time": ix}, "array"])
        ev.append(["set", "v", "label", {"time": ["s", 2000.0], "x": ["l", [20, 30]]}, "array"])
        ev.append(["set", "v", "label", {"x": ["s", 10]}, "scalar"])
        ev.append(["set", "t1", "position", {"time": ["s", 0]}, "scalar"])
        ev.append(["set", "v", "position", {"time": ["l", [1, 0]]}, "dimarray_other"])
        ev.append(["set", "v", "position", {"time": ["sl", 0, 2, None]}, "dimarray_other"])
        ev.append(["set", "t1", "position", {"time": ["l", [1]]}, "dimarray_other"])
        # ... the unlimited dimension addressed by a FULL slice (one column assigned), and a one-row piece broadcast over existing rows
        ev.append(["set", "v", "label", {"x": ["s", 10]}, "dimarray_other"])
        ev.append(["set", "v", "position", {"time": ["sl", 0, 2, None]}, "dimarray_row"])
        ev.append(["set", "v", "position", {"time": ["sl", 1, None, None]}, "dimarray_row"])
    ev.append(["reopen"])
    return ev


def _rhs(kind, shape, step):
    if kind == "scalar":
        return -1.0 - step
    return (np.arange(int(np.prod(shape)) if shape else 1, dtype=float).reshape(shape) + 1) * -(10.0 + step)


class WSpace(object):
    def __init__(self, kind):
        self.kind = kind

    def initial(self, tier):
        return [[["file", self.kind]], [["file", self.kind, "after-another-file-at-this-path"]]]

    def events(self, hist, tier):
        return write_events(self.kind)

    @staticmethod
    def _handles(o, mem):
        """variable handles taken once and USED once for a label look-up along every dimension (whatever they cache is filled)"""
        H = {}
        for v, m in mem.items():
            H[v] = o[v]
            for d in m.dims:
                call(lambda: H[v].read({d: py(m.axes[d].values[0])}))
        return H

    def run(self, hist):
        path = os.path.join(tmpdir(), "w%d_%d.nc" % (os.getpid(), abs(hash(json.dumps(hist))) % 10 ** 9))
        o = None
        try:
            if len(hist[0]) > 2:
                predecessor_file(self.kind, path)
            mem = make_file(self.kind, path)
            o = da.open_nc(path, "a")
            H = self._handles(o, mem)
            changed = False
            for n, ev in enumerate(hist[1:]):
                last = n == len(hist) - 2
                if ev[0] == "reopen":
                    o.close()
                    o = da.open_nc(path, "a")
                    H = self._handles(o, mem)
                    continue
                v = ev[1]
                m = mem[v]
                before = common.snap(m)
                hv = (lambda name: H[name]) if n % 2 == 0 else (lambda name: o[name])     # variable handle kept since open / fresh one
                if ev[0] in ("append_row", "append_cols"):
                    n0 = m.shape[1]
                    k = 1 if ev[0] == "append_row" else ev[2]
                    newt = [3000.0 + n0 + i for i in range(k)]
                    if ev[0] == "append_row":
                        xpos = c19.XL.index(ev[2])
                        block = DimArray(np.array([900.0 + n0]), axes=[Axis(np.array(newt), "time")])
                        res = call(lambda: hv(v).ix.__setitem__((xpos, [n0]), block))
                    else:
                        block = DimArray(np.arange(3. * k).reshape(3, k) + 800 + n0, axes=[Axis(np.array(c19.XL), "x"), Axis(np.array(newt), "time")])
                        res = call(lambda: hv(v).ix.__setitem__((slice(None), slice(n0, n0 + k)), block))
                    if isinstance(res, Raised):
                        return bad("step {} {}: appending past the end of the unlimited dimension raised {}".format(n, ev, res), klass="unexpected-exception")
                    for name in list(mem):
                        mm = mem[name]
                        if "time" in mm.dims:
                            tpos = list(mm.dims).index("time")
                            shape = list(mm.shape); shape[tpos] = k
                            axes = [Axis(np.array(newt), "time") if d == "time" else ax.copy() for d, ax in zip(mm.dims, mm.axes)]
                            pad = DimArray(np.full(shape, np.nan), axes=axes)
                            if name == v:
                                if ev[0] == "append_row":
                                    pad.values[xpos, 0] = block.values[0]
                                else:
                                    pad = block
                            mem[name] = da.concatenate([mm, pad], axis="time")
                    changed = True
                    continue
                if ev[0] == "append":
                    k = ev[2]
                    n0 = m.shape[0]
                    newt = [3000.0 + n0 + i for i in range(k)]
                    if m.ndim == 2:
                        block = DimArray(np.arange(3. * k).reshape(k, 3) + 500 + n0, axes=[Axis(np.array(newt), "time"), Axis(np.array(c19.XL), "x")])
                    else:
                        block = DimArray(np.arange(float(k)) + 700 + n0, axes=[Axis(np.array(newt), "time")])
                    idx = n0 if k == 1 else slice(n0, n0 + k)
                    rhs = block if k > 1 else block
                    res = call(lambda: hv(v).ix.__setitem__(idx, rhs))
                    if isinstance(res, Raised):
                        return bad("step {} {}: appending past the end of the unlimited dimension raised {}".format(n, ev, res), klass="unexpected-exception")
                    for name in list(mem):
                        mm = mem[name]
                        if "time" in mm.dims:
                            if name == v:
                                mem[name] = da.concatenate([mm, block], axis="time")
                            else:   # other variables on the unlimited dimension grow with missing values
                                tpos = list(mm.dims).index("time")
                                shape = list(mm.shape); shape[tpos] = k
                                pad = DimArray(np.full(shape, np.nan), axes=[Axis(np.array(newt), "time") if d == "time" else ax.copy() for d, ax in zip(mm.dims, mm.axes)])
                                mem[name] = da.concatenate([mm, pad], axis="time")
                    changed = True
                else:
                    mode, idx, rk = ev[2], ev[3], ev[4]
                    kw = {d: decode_ix(ix, "i" if mode == "position" else ("f" if d == "time" else LABELS[d][0])) for d, ix in idx.items() if ix[0] != "full"}
                    sel = call(m.take, dict(kw), indexing=mode) if m.ndim else m
                    if isinstance(sel, Raised):
                        res = call(lambda: o[v].put(dict(kw), 0.0, indexing=mode) if hasattr(o[v], "put") else o[v].write(dict(kw), 0.0, indexing=mode))
                        if not isinstance(res, Raised):
                            return bad("step {} {}: the in-memory index raises {} but the on-disk assignment returned normally".format(n, ev, sel))
                        rhsv = None
                    else:
                        shape = sel.shape if isinstance(sel, DimArray) else ()
                        if rk == "dimarray":
                            rhsv = DimArray(_rhs("array", shape, n), axes=[ax.copy() for ax in sel.axes]) if isinstance(sel, DimArray) else _rhs("scalar", (), n)
                        elif rk == "dimarray_row":
                            first = sel.axes[0]
                            rowax = Axis(np.array([py(first.values[0]) + 0.5], dtype=first.values.dtype), first.name)
                            rhsv = DimArray(_rhs("array", (1,) + tuple(shape[1:]), n), axes=[rowax] + [ax.copy() for ax in sel.axes[1:]])
                        elif rk == "dimarray_other":
                            other = [Axis(np.array([(l + "_") if isinstance(l, str) else (l + 1 if isinstance(l, int) else l + 0.5) for l in py(ax.values)],
                                                   dtype=ax.values.dtype), ax.name) for ax in sel.axes]
                            rhsv = DimArray(_rhs("array", shape, n), axes=other)
                            rhsv.attrs.update({"units": "units-of-the-piece", "note": "piece"})
                        else:
                            rhsv = _rhs(rk, shape, n)
                        dims = list(m.dims)
                        tup = tuple(kw.get(d, slice(None)) for d in dims)
                        one = tup[0] if len(tup) == 1 else tup
                        if mode == "label":
                            res = call(lambda: hv(v).__setitem__(one if dims else (), rhsv))
                        else:
                            res = call(lambda: hv(v).ix.__setitem__(one if dims else (), rhsv))
                        if isinstance(res, Raised):
                            return bad("step {} {}: on-disk assignment raised {} (in-memory selection {})".format(n, ev, res, common.describe(sel, 150)), klass="unexpected-exception")
                        vals = rhsv.values if isinstance(rhsv, DimArray) else rhsv
                        if m.ndim:
                            m.put(dict(kw), vals, indexing=mode)
                        else:
                            m.values[()] = vals
                        if isinstance(rhsv, DimArray) and common.snap(m) == before and False:
                            pass
                    if last:
                        changed = common.snap(m) != before
            # compare through the open handle, then after close / reopen
            for stage in ("handle", "reopened"):
                if stage == "reopened":
                    o.close()
                    o = None
                for v, m in mem.items():
                    if stage == "handle":
                        got = call(lambda: o[v].read())
                    else:
                        got = call(da.read_nc, path, v)
                    if isinstance(got, Raised):
                        return bad("after {}: reading {} ({}) raised {}".format(hist[1:], v, stage, got), klass="unexpected-exception")
                    mm = same_result(got, m, "after {}: variable {} read back ({})".format(hist[1:], v, stage))
                    if mm:
                        return bad(mm)
                    if isinstance(got, DimArray) and common.freeze(dict(got.attrs)) != common.freeze(dict(m.attrs)):
                        return bad("after {}: metadata of variable {} read back ({}) is {} but in memory {}".format(hist[1:], v, stage, dict(got.attrs), dict(m.attrs)))
                    if stage == "handle" and m.ndim:
                        # the variable handles kept since the file was opened (each already used for a label look-up then) must see the
                        # current labels: whole read, and a label-mode read of the LAST label of every dimension
                        got = call(lambda: H[v].read())
                        mm = same_result(got, m, "after {}: variable {} read through the handle kept since open".format(hist[1:], v)) if not isinstance(got, Raised) else "after {}: kept handle of {} raised {}".format(hist[1:], v, got)
                        if mm:
                            return bad(mm)
                        for d in m.dims:
                            lab = py(m.axes[d].values[-1])
                            exp = call(m.take, {d: lab})
                            got = call(lambda: H[v].read({d: lab}))
                            if isinstance(got, Raised) != isinstance(exp, Raised):
                                return bad("after {}: label read {{{!r}: {!r}}} of {} through the handle kept since open gives {} but in memory {}".format(
                                    hist[1:], d, lab, v, common.describe(got, 150), common.describe(exp, 150)))
                            if not isinstance(exp, Raised):
                                mm = same_result(got, exp, "after {}: label read {{{!r}: {!r}}} of {} through the handle kept since open".format(hist[1:], d, lab, v))
                                if mm:
                                    return bad(mm)
            canon = common.digest((tuple((k, common.snap(m)) for k, m in sorted(mem.items())), tuple(hist[0][2:])))
            return ok(hist[-1][0], changed, canon=canon)
        finally:
            if o is not None:
                try:
                    o.close()
                except Exception:
                    pass
            if os.path.exists(path):
                os.remove(path)


SPACES = {"fixed": WSpace("fixed"), "unlimited": WSpace("unlimited")}


def bfs(tier, ctx):
    for k in ("fixed", "unlimited"):
        ctx.bfs(k, bounds(tier)["write_program_depth"], time_cap=300 if tier == "quick" else 2400)


def snippet(case):
    if "hist" in case:
        return "from mc.props import c20\nprint(c20.SPACES[{!r}].run({!r}))".format(case["space"], case["hist"])
    return "from mc.props import c20\nprint(c20.check({!r}))".format(case)


def triage_sig(case, detail, klass):
    import re
    return (klass, case.get("part"), case.get("sp"), case.get("mode"), case.get("var") or case.get("axis"), re.sub(r"[-0-9.]+", "#", detail)[:120])


CLASSIFIERS = {}
