"""C07 - reindexing moves data together with its labels.

clause -> observable -> oracle
  result axis is exactly new_labels (order, values)                    -> labels
  slice at each new label == original slice at that label, else fill  -> values (reference: first-match lookup per label)
  NaN fill promotes integer data to float                             -> dtype kind
  raise_error=True raises IndexError iff a label is missing           -> exception
  method left/right: neighbour in sorted order as np.searchsorted     -> np.searchsorted on the sorted label list (named oracle)
  identity on own labels; other axes and attrs unchanged; reindex_like per shared dimension
Not covered: method together with raise_error, duplicate labels in the source axis.
"""
import itertools
import numpy as np
from mc import common, domains as D, ref as R
from mc.engine import ok, bad, unspecified
from mc.common import call, Raised, DimArray, Axis, py
from mc.props import c01

ID = "C07"
OEO = True      # a third of the cases get a second pass on the same array after an in-place edit (engine._oeo)
VARIANT_SWEEP = True      # thorough tier: every case on every history variant of its array (see mc/domains.py VSHIFT)
TITLE = "reindexing moves data with its labels"
RULE = ("product of (arrays 1-3D, reindexed axis at every position, 7 kind/order variants, lengths 0-4, int and float data) x "
        "(new labels: identity, reversed, subset, superset, disjoint, repeated, empty, permuted+absent below/between/above) x "
        "(list / ndarray / Axis form) x fill in {NaN, -9} x raise_error x method in {None,left,right}; reindex_like with "
        "templates sharing 0-2 dims; non-trivial = new labels differ from the source labels")
ASSUMPTIONS = ["np.searchsorted on the sorted label list is the oracle for method=left/right (named by the property)",
               "reference first-match lookup (mc/ref.py)", "labels unique in the source axis"]
NAMES = ["x", "y", "z"]


def bounds(tier):
    return {"max_ndim": 3, "axis_lengths": [0, 1, 2, 3, 4] if tier != "quick" else [0, 1, 3, 4], "fill": ["nan", -9, "np.float32(-1.5)"], "data": "coordinate-encoded and (every second array) magnitudes above 2**24", "methods": [None, "left", "right"]}


def newlabel_menu(lab, kind):
    n = len(lab)
    lo, mid, hi = D.ABSENT_BELOW[kind], D.ABSENT_BETWEEN[kind], D.ABSENT_ABOVE[kind]
    m = {"identity": list(lab), "reversed": list(lab[::-1]), "subset": list(lab[:max(n - 1, 0)]),
         "superset": list(lab) + [hi], "disjoint": [lo, mid, hi], "repeated": ([lab[0], lab[-1], lab[0]] if n else [mid, mid]),
         "empty": [], "perm_absent": ([hi] + list(lab[::-1]) + [lo, mid]), "single_absent": [mid]}
    if n >= 2:
        m["rotated"] = list(lab[1:]) + [lab[0]]
    # same length, every label present except one that is replaced by a value just below it: the clipped search returns
    # each position itself (an "identity take" that nevertheless has a missing label)
    for j in range(n):
        below = (lab[j] - (0.5 if kind == "i" else 0.125)) if kind in "if" else (chr(ord(lab[j][0]) - 1) + "zz")
        m["same_len_missing%d" % j] = list(lab[:j]) + [below] + list(lab[j + 1:])
    if kind in "if" and n:   # fractional labels hugging existing ones (must be treated as absent, never truncated)
        eps = 0.5 if kind == "i" else 0.125
        m["frac"] = [lab[0] + eps, lab[-1], lab[-1] - eps] + [l + eps for l in lab]
    return m


def shards(tier):
    out = []
    k = 0
    lens = bounds(tier)["axis_lengths"]
    for v in c01.AXV:
        for n in lens:
            for vk in "fi":
                out.append({"nd": 1, "p": 0, "v": v, "n": n, "vk": vk, "k": k}); k += 1
    for v in c01.AXV:
        for nd in (2, 3):
            for p in range(nd):
                for n in ([0, 3] if tier == "quick" else [0, 1, 2, 3]):
                    out.append({"nd": nd, "p": p, "v": v, "n": n, "vk": "fi"[k % 2], "k": k}); k += 1
    # every history variant on a sorted axis of either direction (the cycling above meets only some of these pairs in the quick tier)
    for order in ("inc", "dec"):
        for var in D.VARIANTS[1:]:
            out.append({"nd": 1 + k % 2, "p": 0, "v": ("if"[k % 2], order), "n": 4, "vk": "f", "k": k, "var": var}); k += 1
    for k2 in range(4):
        out.append({"like": k2})
    return out


OTHER = [("O", ["q", "p"]), ("i", [7, 3, 5])]


def _spec(sh):
    kind, order = sh["v"]
    lab = D.labels_of(kind, sh["n"], order)
    labels, kinds = [], []
    o = list(OTHER)
    for i in range(sh["nd"]):
        if i == sh["p"]:
            labels.append(lab); kinds.append(kind)
        else:
            kk, ll = o.pop(0)
            labels.append(ll); kinds.append(kk)
    return D.spec(NAMES[:sh["nd"]], labels, kinds, vk=sh["vk"], var=sh.get("var") or (D.VARIANTS[sh["k"] % len(D.VARIANTS)] if sh["n"] else "fresh"),
                  attrs={"units": "K"}, axattrs={NAMES[sh["p"]]: {"long_name": "coord"}}, enc="big" if (sh["k"] // 2) % 2 == 0 else None)


def cases(sh, tier):
    if "like" in sh:
        for c in _like_cases(sh["like"]):
            yield c
        return
    s = _spec(sh)
    p = sh["p"]
    lab, kind = s["labels"][p], s["kinds"][p]
    for name, new in newlabel_menu(lab, kind).items():
        for form in ("list", "nd", "axis"):
            for axisarg in ("name", "pos"):
                if form == "axis" and axisarg == "pos":
                    continue
                for fill in ("nan", -9):
                    yield {"a": s, "p": p, "new": new, "nm": name, "form": form, "axisarg": axisarg, "fill": fill}
                if form == "list":
                    yield {"a": s, "p": p, "new": new, "nm": name, "form": form, "axisarg": axisarg, "fill": "f32"}     # fill_value=np.float32(-1.5)
                    yield {"a": s, "p": p, "new": new, "nm": name, "form": form, "axisarg": axisarg, "fill": "nan", "raise_error": True}
                    for method in ("left", "right"):
                        yield {"a": s, "p": p, "new": new, "nm": name, "form": form, "axisarg": axisarg, "fill": "nan", "method": method}


def _like_cases(k):
    a = D.spec(["x", "y"], [[30, 10, 20], ["a", "b"]], ["i", "O"], vk="fi"[k % 2], var=D.VARIANTS[k], attrs={"units": "K"})
    templates = [
        D.spec(["x", "y"], [[10, 40, 30], ["b", "c", "a"]], ["i", "O"]),     # shares both
        D.spec(["y", "x"], [["b"], [20, 10]], ["O", "i"]),                      # both, other order
        D.spec(["x", "z"], [[10, 25], [0.5, 1.5]], ["i", "f"]),                 # shares one
        D.spec(["z"], [[0.5]], ["f"]),                                          # shares none
        D.spec(["y"], [[]], ["O"]),                                             # empty labels
    ]
    for t in templates:
        for fill in ("nan", -9):
            yield {"a": a, "like": t, "fill": fill}


def state_key(case):
    return case["a"]


def ref_reindex(ra, p, new, fill, method=None):
    lab = ra.labels[p]
    kind_sorted = None
    src = []
    for l in new:
        if method is None or R.first_match(lab, l) is not None:
            # "equals the original slice at that label when the label existed" - under every method (own labels -> identity)
            src.append(R.first_match(lab, l))
        else:
            if kind_sorted is None:
                kind_sorted = sorted(lab)
            if not lab:
                raise R.Unspecified("method on empty axis")
            arr = np.array(kind_sorted, dtype=object if isinstance(kind_sorted[0], str) else None)
            q = int(np.searchsorted(arr, l, side=method))
            q = min(max(q, 0), len(lab) - 1)
            src.append(R.first_match(lab, kind_sorted[q]))
    shape = list(ra.shape)
    shape[p] = len(new)
    missing = any(s is None for s in src)
    dt = ra.vals.dtype
    if missing and ra.vals.dtype.kind == "i" and isinstance(fill, float):
        dt = np.float64
    out = np.empty(shape, dtype=dt)
    for pos in R.all_positions(shape):
        sp = src[pos[p]]
        if sp is None:
            out[pos] = fill
        else:
            q = list(pos); q[p] = sp
            out[pos] = ra.vals[tuple(q)]
    labels = list(ra.labels)
    labels[p] = list(new)
    return R.RA(ra.dims, labels, out, ra.attrs, ra.axattrs), missing


def _newarg(new, kind, form, name):
    if kind == "i" and any(isinstance(v, float) for v in new):
        kind = "f"     # fractional new labels on an int axis: keep them fractional in the ndarray / Axis forms
    arr = D.np_labels(new, kind)
    if form == "list":
        return list(new)
    if form == "nd":
        return arr
    return Axis(arr, name)


def check(case):
    s = case["a"]
    ra = D.build_ref(s)
    a = D.build_impl(s)
    before = common.snap(a)
    fill = float("nan") if case["fill"] == "nan" else case["fill"]
    fill_impl = fill
    if fill == "f32":       # a NumPy scalar of lower precision as fill value: the DATA must not be narrowed to its type
        fill, fill_impl = -1.5, np.float32(-1.5)
    if "like" in case:
        t = D.build_impl(case["like"]); rt = D.build_ref(case["like"])
        got = call(a.reindex_like, t, fill_value=fill)
        exp = ra
        for d in ra.dims:
            if d in rt.dims:
                exp, _ = ref_reindex(exp, exp.dims.index(d), rt.labels[rt.dims.index(d)], fill)
        if common.snap(a) != before:
            return bad("reindex_like modified its operand")
        if isinstance(got, Raised):
            return bad("reindex_like raised {}".format(got), klass="unexpected-exception")
        m = D.compare(got, exp, attrs=True)
        return bad(m) if m else ok("like")
    p, new = case["p"], case["new"]
    kind = s["kinds"][p]
    method = case.get("method")
    arg = _newarg(new, kind, case["form"], ra.dims[p])
    kw = {"fill_value": fill_impl}
    if case["form"] != "axis":
        kw["axis"] = ra.dims[p] if case["axisarg"] == "name" else p
    if case.get("raise_error"):
        kw["raise_error"] = True
    if method:
        kw["method"] = method
    try:
        exp, missing = ref_reindex(ra, p, new, fill, method)
    except R.Unspecified:
        call(a.reindex_axis, arg, **kw)
        return unspecified()
    got = call(a.reindex_axis, arg, **kw)
    if common.snap(a) != before:
        return bad("reindex_axis modified its operand")
    nontriv = not common.same_list(new, ra.labels[p])
    if case.get("raise_error") and missing:
        if isinstance(got, Raised) and issubclass(got.cls, IndexError):
            return ok("raises-IndexError")
        return bad("raise_error=True with missing labels: expected IndexError, got {}".format(common.describe(got)))
    if isinstance(got, Raised):
        return bad("reindex_axis({}, {}) raised {}".format(new, kw, got), klass="unexpected-exception")
    m = D.compare(got, exp, attrs=True, dtype_kind=exp.vals.dtype.kind if (missing and method is None) else None)
    if m:
        return bad(m + " [new={}, method={}, fill={}]".format(new, method, case["fill"]))
    # axis metadata survives reindexing of that axis (also stated in C16)
    return ok(("method-" + method) if method else ("filled" if missing else "present"), nontrivial=nontriv)


def snippet(case):
    return "from mc.props import c07\nprint(c07.check({!r}))".format(case)


def triage_sig(case, detail, klass):
    import re
    return (klass, case.get("nm"), case.get("form"), case.get("method"), "n=%d" % len(case["a"]["labels"][case.get("p", 0)]),
            re.sub(r"[-0-9.]+", "#", detail)[:80])


CLASSIFIERS = {}
