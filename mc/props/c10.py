"""C10 - rearranging dimensions preserves every element's label coordinates.

clause -> observable -> oracle
  result dims are the requested permutation / insertion / removal      -> dims      -> reference op on (dims, labels)
  every axis travels with its data (labels, order)                     -> labels
  element at any label coordinate of the result == element at the corresponding coordinate of the
  input, replicated along new / repeated dimensions                    -> coordinate map comparison
  dimensions by name or by position interchangeably (negative positions included)
  metadata kept                                                        -> attrs
  compositions (depth 2), e.g. transpose(p) then transpose(inverse p) == identity
Not covered: T / transpose() without arguments on arrays of more than 2 dimensions (the library refuses
by design), labels of a dimension newly inserted by broadcast() from a size-1 target axis.
"""
import itertools
from collections import OrderedDict
import numpy as np
from mc import common, domains as D, ref as R
from mc.engine import ok, bad, unspecified
from mc.common import call, Raised, DimArray, Axis, py, same_scalar, same_list

ID = "C10"
OEO = ("assign_cell",)    # a third of the cases get a second pass on the same array after an in-place edit (engine._oeo); only the cell
                          # assignment: the broadcast targets of the cases embed the array's original labels
VARIANT_SWEEP = True      # thorough tier: every case on every history variant of its array (see mc/domains.py VSHIFT)
TITLE = "rearranging dimensions preserves coordinates"
RULE = ("product of (arrays 0-4D, axes of pairwise different kind and length, variants with singleton dimensions) x "
        "(every permutation by name/position/list/varargs, T, every ordered axis pair for swapaxes, every (axis,start) for rollaxis, "
        "newaxis at every position with/without values, squeeze all/name/position, repeat, broadcast to every target axis list "
        "with 0-2 foreign axes (several labels, ONE label, none) in every order, broadcast_arrays on pairs incl. arrays with an empty axis) and all depth-2 compositions of the shape-changing ops; "
        "non-trivial = the operation is not the identity arrangement")
ASSUMPTIONS = ["reference ops on (dims, labels, cells) in mc/props/c10.py; coordinate-map comparison (mc/ref.py)"]
NAMES = ["x", "y", "z", "t"]
AXDEF = {"x": ("i", [30, 10, 20]), "y": ("O", ["b", "a"]), "z": ("f", [2.5, 1.5, 0.5, 3.5]), "t": ("i", [7, 5, 3, 9, 1])}
SINGLE = {"x": ("i", [30]), "y": ("O", ["b"]), "z": ("f", [2.5]), "t": ("i", [7])}
# (a target axis with ONE label and one with none: the new dimension carries the target's labels all the same)
FOREIGN = {"u": ("i", [100, 300, 200]), "w": ("O", ["p", "q"]), "s": ("i", [77]), "e": ("f", [])}
EMPTY = {"x": ("i", []), "y": ("O", []), "z": ("f", []), "t": ("i", [])}


def bounds(tier):
    return {"max_ndim": 4, "axis_lengths": {k: len(v[1]) for k, v in AXDEF.items()}, "composition_depth": 2}


def bases(tier):
    out = []
    k = 0
    for nd in range(0, 5):
        dims = NAMES[:nd]
        sing_sets = [()]
        if nd >= 1:
            sing_sets += [(i,) for i in range(nd)]
        if nd >= 3:
            sing_sets += [(0, nd - 1)]
        for ss in sing_sets:
            if nd == 4 and ss and tier == "quick" and ss != (1,):
                continue
            labels, kinds = [], []
            for i, d in enumerate(dims):
                kk, ll = (SINGLE if i in ss else AXDEF)[d]
                kinds.append(kk); labels.append(ll)
            out.append(D.spec(dims, labels, kinds, vk=["f", "i", "f4", "i4"][k % 4], base=4, var=D.VARIANTS[k % len(D.VARIANTS)] if nd else "fresh",
                              attrs={"units": "m", "tags": ["a", 1]}))
            k += 1
    return out


# ------------------------------------------------------------------------------------------
# operations: enumeration, implementation call, reference semantics
# ------------------------------------------------------------------------------------------
def ops_for(dims, labels, tier, compose=False):
    nd = len(dims)
    ops = []
    perms = list(itertools.permutations(range(nd)))
    if nd == 4 and (tier == "quick" or compose):
        perms = perms[::5]
    for pm in perms:
        forms = ["names", "pos", "lnames", "lpos"] if not compose else ["names"]
        if nd == 0:
            forms = ["names"]
        for form in forms:
            ops.append(["transpose", form, list(pm)])
    if nd <= 2:
        ops.append(["T"])
    if nd >= 2:
        for i, j in itertools.permutations(range(nd), 2):
            ops.append(["swapaxes", dims[i], dims[j]])
            if not compose:
                ops.append(["swapaxes", i, j])
                ops.append(["swapaxes", dims[i], j])
        if not compose:
            ops.append(["swapaxes", 0, -1])
            ops.append(["swapaxes", -2, -1])
    for i in range(nd):
        for start in range(nd + 1):
            ops.append(["rollaxis", dims[i] if (i + start) % 2 else i, start])
    if not compose and nd >= 1:
        ops.append(["rollaxis", -1, 0])
        # negative start positions count from the end, as in numpy.rollaxis (start += ndim)
        for i in range(nd):
            for start in range(-nd, 0):
                ops.append(["rollaxis", i if (i + start) % 2 else dims[i], start])
    nn = "n" if "n" not in dims else "n2"
    # (negative positions count from the end as in numpy.expand_dims: -1 is "after the last dimension", which the library documents, -2 the
    # position before it, ... -(nd+1) the front)
    for pos in list(range(nd + 1)) + [-1] + ([] if compose else list(range(-2, -(nd + 2), -1))):
        ops.append(["newaxis", nn, pos, None])
        if not compose:
            ops.append(["newaxis", nn, pos, [5, 6, 4]])
    sing = [i for i in range(nd) if len(labels[i]) == 1]
    ops.append(["squeeze", None])
    for i in sing:
        ops.append(["squeeze", dims[i]])
        ops.append(["squeeze", i])
        ops.append(["repeat", 3, dims[i]])
        ops.append(["repeat", [8, 9], i])
        if not compose:
            ops.append(["repeat", "axis", dims[i]])
    return ops


def apply_impl(a, op):
    k = op[0]
    dims = list(a.dims)
    if k == "transpose":
        form, pm = op[1], op[2]
        if form == "names":
            return a.transpose(*[dims[i] for i in pm])
        if form == "pos":
            return a.transpose(*pm)
        if form == "lnames":
            return a.transpose([dims[i] for i in pm])
        return a.transpose(tuple(pm))
    if k == "T":
        return a.T
    if k == "swapaxes":
        return a.swapaxes(op[1], op[2])
    if k == "rollaxis":
        return a.rollaxis(op[1], op[2])
    if k == "newaxis":
        kw = {} if op[3] is None else {"values": list(op[3])}
        return a.newaxis(op[1], pos=op[2], **kw)
    if k == "squeeze":
        return a.squeeze() if op[1] is None else a.squeeze(op[1])
    if k == "repeat":
        if op[1] == "axis":
            return a.repeat(Axis(np.array([11, 12, 13]), op[2]))
        return a.repeat(op[1] if isinstance(op[1], int) else list(op[1]), axis=op[2])
    raise ValueError(op)


def _idx(ra, ax):
    if isinstance(ax, str):
        return ra.dims.index(ax)
    return ax % ra.ndim if ra.ndim else 0


def permute(ra, order):
    return R.RA([ra.dims[i] for i in order], [ra.labels[i] for i in order],
                np.transpose(ra.vals, order) if order else ra.vals, ra.attrs)


def apply_ref(ra, op):
    """reference semantics on the boring model; np.transpose / reshape used only as cell containers movers
    and validated by the coordinate-map comparison in check()"""
    k = op[0]
    nd = ra.ndim
    if k == "transpose":
        return permute(ra, list(op[2]))
    if k == "T":
        return permute(ra, list(range(nd))[::-1])
    if k == "swapaxes":
        i, j = _idx(ra, op[1]), _idx(ra, op[2])
        order = list(range(nd))
        order[i], order[j] = order[j], order[i]
        return permute(ra, order)
    if k == "rollaxis":
        i, start = _idx(ra, op[1]), op[2]
        if start < 0:
            start += nd
        order = [q for q in range(nd) if q != i]
        order.insert(start - 1 if start > i else start, i)
        return permute(ra, order)
    if k == "newaxis":
        name, pos, values = op[1], op[2], op[3]
        if pos < 0:
            pos += nd + 1
        lab = [None] if values is None else list(values)
        dims = list(ra.dims); dims.insert(pos, name)
        labels = list(ra.labels); labels.insert(pos, lab)
        out = np.empty([len(l) for l in labels], dtype=ra.vals.dtype)
        for posn in R.all_positions(out.shape):
            src = tuple(p for q, p in enumerate(posn) if q != pos)
            out[posn] = ra.vals[src] if src else ra.vals[()]
        return R.RA(dims, labels, out, ra.attrs)
    if k == "squeeze":
        if op[1] is None:
            drop = [i for i in range(nd) if len(ra.labels[i]) == 1]
        else:
            drop = [_idx(ra, op[1])]
        keep = [i for i in range(nd) if i not in drop]
        out = np.empty([len(ra.labels[i]) for i in keep], dtype=ra.vals.dtype)
        for posn in R.all_positions(out.shape):
            src = [0] * nd
            for q, i in enumerate(keep):
                src[i] = posn[q]
            out[posn] = ra.vals[tuple(src)] if nd else ra.vals[()]
        if not keep:
            out = np.asarray(ra.vals.reshape(-1)[0]) if ra.vals.size else out
        return R.RA([ra.dims[i] for i in keep], [ra.labels[i] for i in keep], out, ra.attrs)
    if k == "repeat":
        i = _idx(ra, op[2])
        lab = [11, 12, 13] if op[1] == "axis" else (list(range(op[1])) if isinstance(op[1], int) else list(op[1]))
        labels = list(ra.labels); labels[i] = lab
        out = np.empty([len(l) for l in labels], dtype=ra.vals.dtype)
        for posn in R.all_positions(out.shape):
            src = list(posn); src[i] = 0
            out[posn] = ra.vals[tuple(src)]
        return R.RA(ra.dims, labels, out, ra.attrs)
    raise ValueError(op)


def is_identity(ra, op):
    k = op[0]
    if k == "transpose":
        return list(op[2]) == list(range(ra.ndim))
    if k == "T":
        return ra.ndim < 2
    if k == "swapaxes":
        return _idx(ra, op[1]) == _idx(ra, op[2])
    if k == "rollaxis":
        i = _idx(ra, op[1])
        return (op[2] + len(ra.dims) if op[2] < 0 else op[2]) in (i, i + 1)
    if k == "squeeze":
        return op[1] is None and all(len(l) != 1 for l in ra.labels)
    return False


# ------------------------------------------------------------------------------------------
def shards(tier):
    B = bases(tier)
    out = [{"part": "single", "b": i} for i in range(len(B))]
    out += [{"part": "compose", "b": i} for i in range(len(B)) if len(B[i]["dims"]) <= (3 if tier == "quick" else 4)]
    out += [{"part": "broadcast", "b": i} for i in range(len(B))]
    out.append({"part": "bcarrays"})
    return out


def cases(sh, tier):
    B = bases(tier)
    if sh["part"] == "bcarrays":
        for c in _bcarrays_cases(tier):
            yield c
        return
    s = B[sh["b"]]
    if sh["part"] == "single":
        for op in ops_for(s["dims"], s["labels"], tier):
            yield {"a": s, "ops": [op]}
    elif sh["part"] == "compose":
        ra = D.build_ref(s)
        ops1 = ops_for(s["dims"], s["labels"], tier, compose=True)
        if len(s["dims"]) >= 3:
            ops1 = ops1[::2] if tier == "quick" else ops1
        for op1 in ops1:
            r1 = apply_ref(ra, op1)
            ops2 = ops_for(list(r1.dims), list(r1.labels), tier, compose=True)
            if len(r1.dims) >= 3:
                ops2 = ops2[::3] if tier == "quick" else ops2
            for op2 in ops2:
                yield {"a": s, "ops": [op1, op2]}
            if op1[0] == "transpose":   # inverse permutation: back to the original
                inv = [0] * len(op1[2])
                for q, i in enumerate(op1[2]):
                    inv[i] = q
                yield {"a": s, "ops": [op1, ["transpose", "pos", inv]], "inverse": True}
    else:
        for c in _broadcast_cases(s, tier):
            yield c


def _broadcast_cases(s, tier):
    own = [(d, l, k) for d, l, k in zip(s["dims"], s["labels"], s["kinds"])]
    foreign = [(n, FOREIGN[n][1], FOREIGN[n][0]) for n in FOREIGN]
    # own singleton dims may be expanded by the target (target gives the full axis of that name)
    for nf in (0, 1, 2):
        for fs in itertools.combinations(foreign, nf):
            target = []
            for d, l, k in own:
                if len(l) == 1:
                    target.append((d, AXDEF[d][1], k))      # expand the singleton to the full axis
                else:
                    target.append((d, l, k))
            target += list(fs)
            targets = [target]
            if any(len(l) == 1 for d, l, k in own):
                # ... or the target has ONE label there too, another one: nothing to replicate, the array's axis travels with its data
                other = {"i": 555, "f": 55.5, "O": "other"}
                targets.append([(d, [other[k]], k) if len(l) == 1 else (d, l, k) for d, l, k in own] + list(fs))
            for target in targets:
              for c_ in _orders_of(target, tier, s):
                yield c_


def _orders_of(target, tier, s):
            orders = list(itertools.permutations(range(len(target))))
            if len(orders) > 24:
                orders = orders[::7] if tier == "quick" else orders[::2]
            for c, od in enumerate(orders):
                tg = [list(target[i]) for i in od]
                yield {"a": s, "bc": tg, "form": ["axes", "dimarray", "odict"][c % 3]}
            return
            yield   # (generator)


def _bcarrays_cases(tier):
    P = []
    k = 0
    combos = [[], ["x"], ["y"], ["x", "y"], ["y", "x"], ["x", "z"], ["z", "y", "x"], ["y", "t"], ["x", "y", "z"]]
    for dims in combos:
        for sing in ([None] + list(dims)):
            labels, kinds = [], []
            for d in dims:
                kk, ll = (SINGLE if d == sing else AXDEF)[d]
                kinds.append(kk); labels.append(ll)
            P.append(D.spec(dims, labels, kinds, vk="f", base=5 + k, attrs={"units": "m"})); k += 1
    for dims in (["x"], ["x", "y"], ["y", "x"]):       # the x axis has no labels: broadcasts against a missing or single-label x (1 -> 0, as in NumPy)
        P.append(D.spec(dims, [(EMPTY if d == "x" else AXDEF)[d][1] for d in dims], [AXDEF[d][0] for d in dims], vk="f", base=5 + k)); k += 1
    for i in range(len(P)):
        for j in range(len(P)):
            yield {"bca": [P[i], P[j]]}
    if tier != "quick":
        for i in range(0, len(P), 3):
            for j in range(0, len(P), 4):
                for l in range(0, len(P), 5):
                    yield {"bca": [P[i], P[j], P[l]]}
    # every ordered pair of dimension lists (ordered subsets of at most 3 of the 4 names): rotations of three dimensions relative to
    # the joint order together with missing dimensions need four distinct names
    import itertools
    Q = []
    for r in range(0, 4):
        for dims in itertools.permutations(["x", "y", "z", "t"], r):
            Q.append(D.spec(list(dims), [AXDEF[d][1] for d in dims], [AXDEF[d][0] for d in dims], vk="f", base=40 + len(Q)))
    for i in range(len(Q)):
        for j in range(len(Q)):
            if len(Q[i]["dims"]) + len(Q[j]["dims"]) >= 4 or tier != "quick":
                yield {"bca": [Q[i], Q[j]]}


def state_key(case):
    return case.get("a") or case.get("bca")


def cmp_coord(got, exp, src, what):
    """got: DimArray, exp: RA (expected dims+labels), src: RA (the input).  Values are checked twice: against the
    reference result and, independently, by coordinate against the input."""
    m = D.compare(got, exp, attrs=True, what=what)
    if m:
        return m
    msrc = R.coordmap(src)
    # dims of src that survive in the result
    common_dims = [d for d in src.dims if d in exp.dims]
    dropped = [d for d in src.dims if d not in exp.dims]
    for pos in R.all_positions(got.values.shape):
        coord = {d: R._hashable(py(got.axes[i].values[pos[i]])) for i, d in enumerate(got.dims)}
        key = []
        for d in src.dims:
            if d in coord and any(R.eq(coord[d], R._hashable(l)) for l in src.labels[src.dims.index(d)]):
                key.append((d, coord[d]))
            else:   # repeated / expanded singleton or squeezed dimension: the input has a single label there
                key.append((d, R._hashable(src.labels[src.dims.index(d)][0])))
        v = msrc.get(frozenset(key))
        if v is None or not same_scalar(got.values[pos], v):
            return "{}: element at {} is {!r} but the input holds {!r} there".format(what, coord, py(got.values[pos]), py(v))
    return None


def check(case):
    if "bca" in case:
        return _check_bcarrays(case)
    s = case["a"]
    ra = D.build_ref(s)
    a = D.build_impl(s)
    before = common.snap(a)
    if "bc" in case:
        return _check_broadcast(case, a, ra, before)
    cur, rcur = a, ra
    nontrivial = False
    for n, op in enumerate(case["ops"]):
        if op[0] == "T" and rcur.ndim > 2:
            return unspecified("T-on->2D")
        nontrivial = nontrivial or not is_identity(rcur, op)
        nxt = call(apply_impl, cur, op)
        rnext = apply_ref(rcur, op)
        if isinstance(nxt, Raised):
            return bad("step {} {} on dims {} raised {}".format(n, op, rcur.dims, nxt), klass="unexpected-exception")
        if rnext.ndim == 0 and not isinstance(nxt, DimArray):
            if not same_scalar(nxt, rnext.vals[()]):
                return bad("step {} {}: scalar {!r} expected {!r}".format(n, op, py(nxt), py(rnext.vals[()])))
            return ok("scalar", nontrivial)
        if not isinstance(nxt, DimArray):
            return bad("step {} {} returned {}".format(n, op, common.describe(nxt)))
        m = cmp_coord(nxt, rnext, ra, "step {} {}".format(n, op))
        if m:
            return bad(m)
        cur, rcur = nxt, rnext
    if common.snap(a) != before:
        return bad("operand modified by {}".format(case["ops"]))
    if case.get("inverse"):
        m = D.compare(cur, ra, attrs=True, what="transpose then inverse transpose")
        if m:
            return bad(m)
    return ok(case["ops"][-1][0] if len(case["ops"]) == 1 else "compose", nontrivial)


def _mk_target(tg, form):
    axes = [Axis(D.np_labels(l, k), n) for n, l, k in tg]
    if form == "axes":
        return axes
    if form == "dimarray":
        return DimArray(np.zeros([len(l) for n, l, k in tg]), axes=axes)
    od = OrderedDict()
    for n, l, k in tg:
        od[n] = D.np_labels(l, k)
    return od


def _ref_broadcast(ra, tg):
    dims = [n for n, l, k in tg]
    labels = [list(l) for n, l, k in tg]
    for i, d in enumerate(dims):
        if d in ra.dims and len(labels[i]) == 1 and len(ra.labels[ra.dims.index(d)]) == 1:
            labels[i] = list(ra.labels[ra.dims.index(d)])      # one label against one label: the array keeps its own
    out = np.empty([len(l) for l in labels], dtype=ra.vals.dtype)
    for pos in R.all_positions(out.shape):
        src = []
        for d in ra.dims:
            i = dims.index(d)
            src.append(pos[i] if len(ra.labels[ra.dims.index(d)]) > 1 else 0)
        out[pos] = ra.vals[tuple(src)] if src else ra.vals[()]
    return R.RA(dims, labels, out, ra.attrs)


def _check_broadcast(case, a, ra, before):
    tg = case["bc"]
    target = _mk_target(tg, case["form"])
    got = call(a.broadcast, target)
    if common.snap(a) != before:
        return bad("broadcast modified its operand")
    if isinstance(got, Raised):
        return bad("broadcast to {} raised {}".format([n for n, l, k in tg], got), klass="unexpected-exception")
    exp = _ref_broadcast(ra, tg)
    if not isinstance(got, DimArray):
        if exp.ndim == 0 and same_scalar(got, exp.vals[()]):
            return ok("bc-scalar", False)
        return bad("broadcast returned {}".format(common.describe(got)))
    m = cmp_coord(got, exp, ra, "broadcast to {}".format([n for n, l, k in tg]))
    return bad(m) if m else ok("broadcast", [n for n, l, k in tg] != list(ra.dims))


def _check_bcarrays(case):
    specs = case["bca"]
    arrs = [D.build_impl(s) for s in specs]
    refs = [D.build_ref(s) for s in specs]
    befores = [common.snap(a) for a in arrs]
    # expected common dims / axes; shared non-singleton axes are equal by construction
    dims = []
    for r in refs:
        for d in r.dims:
            if d not in dims:
                dims.append(d)
    tg = []
    for d in dims:
        best = None
        for r in refs:
            if d in r.dims:
                l = r.labels[r.dims.index(d)]
                if best is None or (len(best) == 1 and len(l) != 1):
                    best = l
                elif len(l) != 1 and len(l) != len(best):
                    call(common.da.broadcast_arrays, *arrs)
                    return unspecified("not-broadcastable")     # two different lengths, none of them 1 (only with the empty axis)
        tg.append((d, best, {"x": "i", "y": "O", "z": "f", "t": "i"}[d]))
    got = call(common.da.broadcast_arrays, *arrs)
    for a, b in zip(arrs, befores):
        if common.snap(a) != b:
            return bad("broadcast_arrays modified an input")
    if isinstance(got, Raised):
        return bad("broadcast_arrays on dims {} raised {}".format([r.dims for r in refs], got), klass="unexpected-exception")
    if len(got) != len(arrs):
        return bad("broadcast_arrays returned {} arrays".format(len(got)))
    for k, (g, r) in enumerate(zip(got, refs)):
        exp = _ref_broadcast(r, tg)
        # (a dimension newly introduced from a single-label axis carries that label like any other: earlier versions of this check
        # accepted the placeholder label [None] there)
        if exp.ndim == 0:
            v = g.values[()] if isinstance(g, DimArray) else g
            if not same_scalar(v, exp.vals[()]):
                return bad("broadcast_arrays output {}: {!r} expected {!r}".format(k, py(v), py(exp.vals[()])))
            continue
        if not isinstance(g, DimArray):
            return bad("broadcast_arrays output {} is {}".format(k, common.describe(g)))
        m = cmp_coord(g, exp, r, "broadcast_arrays output {}".format(k))
        if m:
            return bad(m)
    return ok("broadcast_arrays", len(set(tuple(r.dims) for r in refs)) > 1)


def snippet(case):
    return "from mc.props import c10\nprint(c10.check({!r}))".format(case)


def triage_sig(case, detail, klass):
    import re
    if "ops" in case:
        return (klass, "+".join(o[0] for o in case["ops"]), "nd=%d" % len(case["a"]["dims"]), re.sub(r"[-0-9.]+", "#", detail)[:100])
    return (klass, "bc" if "bc" in case else "bca", re.sub(r"[-0-9.]+", "#", detail)[:100])


CLASSIFIERS = {}
