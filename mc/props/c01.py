"""C01 - label indexing returns exactly the data stored at those labels.

clause -> observable -> oracle
  scalar / list / ndarray / mask / full slice per dimension, tuple or dict  -> dims, labels, values -> ref.resolve + ref.select
     (orthogonal: every dimension sampled independently; scalars drop, lists/masks keep, requested order)
  absent label -> IndexError (never a neighbour)                               -> exception class
  tolerance: nearest label iff within tol (ties: either neighbour accepted)    -> ref.locate_scalar
  positional access == NumPy index on .values per dimension + matching labels  -> np.arange(n)[ix] per dimension
  all spellings agree; 'indexing.by' option: .loc/.iloc keep meaning, .ix toggles
Not covered: slices (C02), broadcast=True indexing, N-d boolean masks (C03/C17), duplicate labels.
"""
import itertools
import numpy as np
from mc import common, domains as D, ref as R, spell
from mc.engine import ok, bad, unspecified
from mc.common import call, Raised, DimArray

ID = "C01"
OEO = ("decoy",)   # decoy pre-pass only (engine.safe_check): this check edits its array in place itself, so the generic second pass does not apply
TITLE = "label indexing returns exactly the stored data"
RULE = ("product of (arrays 0-3D [4D thorough], each axis one of 7 kind/order variants, different lengths) x "
        "(per-dimension menu: full, scalar present/absent, lists (single, reversed, repeated, with absent, empty), "
        "ndarrays, masks, numpy scalar) x spellings (a[], take, dict by name/position, axis=, .loc, .sel, keepdims) x "
        "option indexing.by in {label, position}; position-mode menu through .ix/.iloc/.isel/indexing='position'; "
        "tolerance grid (queries on a quarter-step grid x tol in {0,q,h,1,inf}; boundary queries: empty selection, NaN, axis without labels, "
        "int8/int16/int32 and unsigned labels, a tolerance attached to the axis vs the call's own incl. 0); unsigned position arrays; lists of labels "
        "of another type; object-dtype cells under a fully scalar index; every read leaves the caller's index objects unchanged and answers "
        "the same when they are re-used; non-trivial = at least one "
        "dimension is indexed by something else than the full slice")
ASSUMPTIONS = ["reference model mc/ref.py (first-match lookup, nearest-within-tol, orthogonal selection by nested loops)",
               "np.arange(n)[ix] is the per-dimension oracle for positional access (named by the property)",
               "labels unique within an axis; masks have the axis length"]

AXV = [("i", "inc"), ("i", "dec"), ("i", "shuf"), ("f", "inc"), ("f", "shuf"), ("O", "inc"), ("O", "shuf"), ("f", "bigshuf")]
LENS = [3, 2, 3, 2]
NAMES = ["x", "y", "z", "t"]


def bounds(tier):
    return {"max_ndim": 3 if tier == "quick" else 4, "axis_variants": 7, "axis_lengths": LENS,
            "menu_size": "14 (+5 fractional near-label queries, on both sides of a label, scalar / list / ndarray, on numeric axes)", "tol_values": "0, quarter, half, one step, inf"}


def menu(lab, kind, small=False):
    n = len(lab)
    ab = D.ABSENT_BETWEEN[kind]
    m = [["full"], ["s", lab[0]], ["s", ab], ["l", [lab[-1]]], ["l", lab[::-1]], ["l", [lab[0], lab[-1], lab[0]]],
         ["l", [lab[0], ab]], ["l", []], ["nd", [lab[-1], lab[0]]], ["m", [i % 2 == 0 for i in range(n)]],
         ["m", [False] * n], ["nps", lab[-1]], ["ml", [i == n - 1 for i in range(n)]], ["nd", []]]
    if n >= 3:
        m.append(["l", lab[1:] + lab[:1]])      # rotation: a permutation that is not its own inverse
    if kind == "O" and not small:
        # labels of ANOTHER type asked from a str axis, in a list: absent like any other absent label (the scalar form raises IndexError)
        m = m + [["l", [3]], ["l", [lab[0], 2.5]]]
    if kind in "if":   # fractional query hugging a label: must not be truncated / rounded onto it
        eps = 0.5 if kind == "i" else 0.125
        m = m + [["s", lab[0] + eps], ["l", [lab[-1], lab[0] - eps]], ["l", [lab[0] + eps]], ["nd", [lab[-1] + eps, lab[0]]], ["s", lab[-1] - eps]]
    if small:
        return [m[0], m[1], m[2], m[4], m[5], m[7], m[9], m[11]] + (m[14:15] if kind in "if" else [])
    return m


def pmenu(n, small=False):
    m = [["full"], ["s", 0], ["s", -1], ["s", n], ["l", [n - 1, 0]], ["l", [0, 0, n - 1]], ["l", []], ["nd", [n - 1, 0]] if n % 2 else ["ndu", [n - 1, 0]],
         ["m", [i % 2 == 0 for i in range(n)]], ["m", [False] * n], ["l", [-1, -n]], ["nps", n - 1], ["sl", 1, None, None],
         ["l", [0, n]], ["nd", []]]
    if small:
        return [m[0], m[1], m[2], m[4], m[6], m[8], m[13]]
    return m


def _spec(variants, k=0, opt=None):
    nd = len(variants)
    labels = [D.labels_of(kd, LENS[i], od) for i, (kd, od) in enumerate(variants)]
    kinds = [kd for kd, od in variants]
    return D.spec(NAMES[:nd], labels, kinds, vk=["f", "i", "f4", "i4"][k % 4], var=D.VARIANTS[k % len(D.VARIANTS)] if nd else "fresh", opt=opt)


def shards(tier):
    out = [{"v": [], "part": "idx"}]
    k = 0
    for v in AXV:
        out.append({"v": [v], "part": "idx", "k": k}); k += 1
    for v in itertools.product(AXV, repeat=2):
        out.append({"v": list(v), "part": "idx", "k": k}); k += 1
    trip = list(itertools.product(AXV, repeat=3))
    if tier == "quick":
        trip = [trip[(i * 50 + i) % len(trip)] for i in range(14)]
    for v in trip:
        out.append({"v": list(v), "part": "idx", "k": k}); k += 1
    if tier != "quick":
        quad = list(itertools.product(AXV, repeat=4))
        for v in quad[::57]:
            out.append({"v": list(v), "part": "idx", "k": k}); k += 1
    out.append({"v": [], "part": "objvals"})
    # tolerance
    for v in AXV:
        out.append({"v": [v], "part": "tol"})
    for v in [(("i", "shuf"), ("f", "inc")), (("f", "shuf"), ("O", "inc")), (("i", "dec"), ("i", "inc"))]:
        out.append({"v": list(v), "part": "tol"})
    return out


LAB_SP = ["getitem", "take", "dictn", "dicti", "loc", "sel", "takelab", "axisn", "axisp"]
POS_SP = ["ix", "iloc", "isel", "takepos", "dictpos", "axispos"]
# under indexing.by = position: a[..], take, dict forms are positional; .ix toggles to labels
OPT_LAB_SP = ["ix", "loc", "sel", "takelab"]
OPT_POS_SP = ["getitem", "take", "dictn", "iloc", "isel", "takepos"]


def cases(sh, tier):
    v = [tuple(x) for x in sh["v"]]
    nd = len(v)
    if sh["part"] == "tol":
        for c in _tol_cases(v, tier):
            yield c
        return
    if sh["part"] == "objvals":
        for i in range(2):
            for j in range(3):
                for sp in ("getitem", "loc", "dictn", "ix", "take", "sel"):
                    yield {"objvals": [i, j], "sp": sp}
        return
    k = sh.get("k", 0)
    s = _spec(v, k)
    so = _spec(v, k, opt="position")
    if nd == 0:
        for sp in ["getitem", "take", "loc"]:
            yield {"a": s, "ix": [], "sp": sp, "mode": "label"}
            yield {"a": s, "ix": [["e"]], "sp": sp, "mode": "label"}
        yield {"a": s, "ix": [], "sp": "ix", "mode": "position"}
        return
    small = (nd >= 3 and tier == "quick") or nd >= 4
    menus = [menu(s["labels"][i], s["kinds"][i], small) for i in range(nd)]
    pmenus = [pmenu(len(s["labels"][i]), small or nd >= 3) for i in range(nd)]
    c = 0
    for ixs in itertools.product(*menus):
        ixs = list(ixs)
        if all(ix[0] == "full" for ix in ixs):
            continue
        c += 1
        sps = [sp for sp in LAB_SP if spell.applicable(sp, ixs, nd)]
        if nd >= 2 and tier == "quick":
            sps = [sps[c % len(sps)], sps[(c // 3 + 1) % len(sps)]]
        elif nd >= 3:
            sps = [sps[c % len(sps)], sps[(c // 3 + 1) % len(sps)], sps[(c // 7 + 2) % len(sps)]]
        for sp in dict.fromkeys(sps):
            yield {"a": s, "ix": ixs, "sp": sp, "mode": "label"}
        if nd <= 2 or c % 5 == 0:
            osp = [sp for sp in OPT_LAB_SP if spell.applicable(sp, ixs, nd)]
            yield {"a": so, "ix": ixs, "sp": osp[c % len(osp)], "mode": "label"}
        if c % 4 == 0 and any(ix[0] in ("s", "nps") for ix in ixs):
            yield {"a": s, "ix": ixs, "sp": "take", "mode": "label", "keepdims": True}
        # trailing dims omitted / Ellipsis padding
        if nd >= 2 and ixs[-1][0] == "full" and c % 2 == 0:
            yield {"a": s, "ix": ixs[:-1], "sp": "getitem", "mode": "label"}
            yield {"a": s, "ix": ixs[:-1] + [["e"]], "sp": "getitem", "mode": "label"}
        if nd >= 2 and ixs[0][0] == "full" and c % 2 == 1:
            yield {"a": s, "ix": [["e"]] + ixs[1:], "sp": "getitem", "mode": "label"}
    c = 0
    for ixs in itertools.product(*pmenus):
        ixs = list(ixs)
        if all(ix[0] == "full" for ix in ixs):
            continue
        c += 1
        sps = [sp for sp in POS_SP if spell.applicable(sp, ixs, nd)]
        if nd >= 2:
            sps = [sps[c % len(sps)], sps[(c // 3 + 1) % len(sps)]]
        for sp in dict.fromkeys(sps):
            yield {"a": s, "ix": ixs, "sp": sp, "mode": "position"}
        osp = [sp for sp in OPT_POS_SP if spell.applicable(sp, ixs, nd)]
        yield {"a": so, "ix": ixs, "sp": osp[c % len(osp)], "mode": "position"}


def _grid(lab, kind):
    s = sorted(lab)
    step = 10.0 if kind == "i" else 1.0
    q = [s[0] - step / 2 + i * step / 4 for i in range(int((s[-1] - s[0]) / step * 4) + 5)]
    return [int(x) if kind == "i" and x == int(x) else x for x in q]


def _tol_cases(v, tier):
    nd = len(v)
    s = _spec(v, 1)
    tols = {"i": [0, 2.5, 5, 10, float("inf")], "f": [0, 0.25, 0.5, 1, float("inf")], "O": [0.5, float("inf")]}
    if nd == 1:
        kind, lab = s["kinds"][0], s["labels"][0]
        if kind == "O":
            qs = [lab[0], D.ABSENT_BETWEEN["O"]]
        else:
            qs = _grid(lab, kind)
        for tol in tols[kind]:
            for q in qs:
                for sp in ["take", "dictn", "axisn", "loc"]:
                    yield {"a": s, "ix": [["s", q]], "sp": sp, "mode": "label", "tol": tol}
                yield {"a": s, "ix": [["l", [q, lab[0]]]], "sp": "take", "mode": "label", "tol": tol}
                yield {"a": s, "ix": [["nd", [lab[-1], q]]], "sp": "dictn", "mode": "label", "tol": tol}
            if tol == float("inf"):
                for q in qs:
                    yield {"a": s, "ix": [["s", q]], "sp": "nloc", "mode": "label", "tol": tol}
                    yield {"a": s, "ix": [["l", [q, q]]], "sp": "nloc", "mode": "label", "tol": tol}
        if kind in "if":
            # boundary queries under a tolerance: nothing selected (empty list / array), a NaN query (within no tolerance of any label),
            # an axis without labels (nothing is within tol: IndexError like any absent label)
            nanq = float("nan")
            for var in ("fresh", s.get("var", "fresh")):
                for e, labs in ((dict(s, var=var), lab), (D.spec(["x"], [[]], [kind], var=var), [])):
                    for tol in (tols[kind][1], float("inf")):
                        for sp in ["take", "dictn", "axisn", "loc"]:
                            yield {"a": e, "ix": [["s", nanq]], "sp": sp, "mode": "label", "tol": tol}
                            yield {"a": e, "ix": [["l", []]], "sp": sp, "mode": "label", "tol": tol}
                            yield {"a": e, "ix": [["s", lab[0]]], "sp": sp, "mode": "label", "tol": tol}
                        yield {"a": e, "ix": [["nd", []]], "sp": "dictn", "mode": "label", "tol": tol}
                        yield {"a": e, "ix": [["l", [lab[0], nanq]]], "sp": "take", "mode": "label", "tol": tol}
                        yield {"a": e, "ix": [["nd", [nanq]]], "sp": "take", "mode": "label", "tol": tol}
        if kind == "f":
            # a tolerance attached to the AXIS (Axis(..., tol=)): used when the call gives none, overridden by the call's own - tol=0 included
            for var in ("fresh",):
                e = dict(s, var=var, axtol=[0.25])
                for q in (lab[0] + 0.125, lab[0] + 0.375, lab[0]):
                    for tol in (None, 0, 0.5, 0.03125):
                        for sp in ("take", "dictn", "loc"):
                            c = {"a": e, "ix": [["s", q]], "sp": sp, "mode": "label"}
                            if tol is not None:
                                c["tol"] = tol
                            yield c
                        yield dict({"a": e, "ix": [["l", [q, lab[-1]]]], "sp": "take", "mode": "label"}, **({} if tol is None else {"tol": tol}))
        if v[0] == ("f", "inc"):
            # infinite labels (open-ended bins): they are ON the axis, at distance 0 from themselves, whatever the tolerance
            inf = float("inf")
            e = D.spec(["x"], [[-inf, 0.0, 5.0, inf]], ["f"])
            for tol in (0, 1, inf):
                for q in (inf, -inf, 5.0, 4.5):
                    for sp in ("take", "dictn", "loc"):
                        yield {"a": e, "ix": [["s", q]], "sp": sp, "mode": "label", "tol": tol}
                yield {"a": e, "ix": [["l", [5.0, inf]]], "sp": "take", "mode": "label", "tol": tol}
            yield {"a": dict(e, axtol=[0.5]), "ix": [["s", inf]], "sp": "take", "mode": "label"}
        if v[0] == ("i", "inc"):
            # narrow integer labels: the distance |label - query| does not fit the label dtype
            for ldt, labs, q, tol in (("uint8", [1, 5, 9], 6, 1), ("uint16", [1, 5, 9], 5.25, 0.5), ("uint64", [1, 5, 9], 7, 1), ("int8", [-100, 60], 120, 40), ("int8", [-100, 60], 120, 70), ("int32", [-2000000000, 1500000000], 2000000000, 600000000),
                                      ("int32", [-2000000000, 1500000000], 2000000000, 300000000), ("int16", [-30000, 100, 20000], 30000, 5000)):
                e = dict(D.spec(["x"], [labs], ["i"]), ldt=[ldt])
                for sp in ["take", "dictn", "loc"]:
                    yield {"a": e, "ix": [["s", q]], "sp": sp, "mode": "label", "tol": tol}
                yield {"a": e, "ix": [["l", [q, labs[0]]]], "sp": "take", "mode": "label", "tol": tol}
        return
    qss = []
    for i in range(nd):
        kind, lab = s["kinds"][i], s["labels"][i]
        qss.append([lab[0], D.ABSENT_BETWEEN["O"]] if kind == "O" else _grid(lab, kind)[::2])
    for tol in [0.25, 0.5, 5, float("inf")]:
        for qs in itertools.product(*qss):
            yield {"a": s, "ix": [["s", q] for q in qs], "sp": "take", "mode": "label", "tol": tol}
            yield {"a": s, "ix": [["s", qs[0]], ["l", [qs[1]]]], "sp": "dictn", "mode": "label", "tol": tol}
            if tol == float("inf"):
                yield {"a": s, "ix": [["s", q] for q in qs], "sp": "nloc", "mode": "label", "tol": tol}


def state_key(case):
    return case.get("a") or "objvals"


OBJVALS = [[None, [1, 2], "txt"], [{"k": 1}, (3, 4), 2.5]]


def _check_objvals(case):
    """an array of Python objects (values dtype object): a fully scalar index returns the very element stored there, whatever its type"""
    vals = np.empty((2, 3), dtype=object)
    for i in range(2):
        for j in range(3):
            vals[i, j] = OBJVALS[i][j]
    a = DimArray(vals, axes=[common.Axis(np.array([10, 20]), "x"), common.Axis(np.array(["a", "b", "c"], dtype=object), "y")])
    i, j = case["objvals"]
    xl, yl = [10, 20][i], "abc"[j]
    sp = case["sp"]
    f = {"getitem": lambda: a[xl, yl], "loc": lambda: a.loc[xl, yl], "dictn": lambda: a.take({"x": xl, "y": yl}), "ix": lambda: a.ix[i, j],
         "take": lambda: a.take((xl, yl)), "sel": lambda: a.sel(x=xl, y=yl)}[sp]
    got = call(f)
    want = OBJVALS[i][j]
    if isinstance(got, Raised):
        return bad("object array: {} index of the cell holding {!r} raised {}".format(sp, want, got), klass="unexpected-exception")
    if type(got) is not type(want) or not (got is want or got == want):
        return bad("object array: {} index of the cell holding {!r} returned {}".format(sp, want, common.describe(got)))
    return ok("objvals", True)


def check(case):
    if "objvals" in case:
        return _check_objvals(case)
    s = case["a"]
    ra = D.build_ref(s)
    a = D.build_impl(s)
    r = _judge(a, ra, case, first=True)
    if not r["ok"] or r.get("unspecified") or case["mode"] != "label" or not ra.ndim:
        return r
    # ... and once more on the SAME array after its axes were relabelled in place (first two labels of every axis swapped, through
    # set_axis): look-ups must follow the labels the array has now (whatever a first look-up may have remembered)
    import zlib
    if zlib.crc32(repr((case["ix"], case["sp"])).encode()) % 3:
        return r
    labels2 = []
    for i, (lab, kind) in enumerate(zip(ra.labels, s["kinds"])):
        l2 = list(lab)
        if len(l2) >= 2:
            l2[0], l2[1] = l2[1], l2[0]
            res = call(a.set_axis, D.np_labels(l2, kind), axis=i)
            if isinstance(res, Raised):
                return bad("a.set_axis({}, axis={}) raised {}".format(l2, i, res), klass="unexpected-exception")
        labels2.append(l2)
    ra2 = R.RA(ra.dims, labels2, ra.vals)
    r2 = _judge(a, ra2, case, first=False)
    if not r2["ok"]:
        return bad("after swapping the first two labels of every axis in place (now {}): {}".format(labels2, r2.get("detail")), klass=r2.get("klass", "mismatch"))
    return r


def _presnap(pre):
    """snapshot of the index objects (keys of mappings included: a {position: index} mapping must still have its integer keys afterwards)"""
    def one(o):
        if isinstance(o, dict):
            return ("dict",) + tuple((repr(k), one(v)) for k, v in o.items())
        if isinstance(o, (tuple, list)):
            return (type(o).__name__,) + tuple(one(x) for x in o)
        if isinstance(o, np.ndarray):
            return ("nd", str(o.dtype), o.shape, repr(o.tolist()))
        return repr(o)
    return tuple((k, one(v)) for k, v in sorted(pre.items()))


def _judge(a, ra, case, first):
    s = case["a"]
    before = common.snap(a)
    tol = case.get("tol")
    kd = case.get("keepdims", False)
    kw = {}
    if tol is not None and case["sp"] != "nloc":
        kw["tol"] = tol
    if kd:
        kw["keepdims"] = True
    reftol = tol
    if tol is None and s.get("axtol") and case["mode"] == "label":
        reftol = s["axtol"][0]          # the axis' own tolerance applies when the call gives none (1-D cases only)
    try:
        alts = R.resolve_all(ra, s["kinds"], case["ix"], mode=case["mode"], tol=reftol, keepdims=kd)
        expect = [R.select(ra, pd) for pd in alts]
    except R.RefRaises as e:
        expect = e
    except R.Unspecified:
        call(spell.get, a, case["ix"], case["sp"], s["kinds"], mode=case["mode"], **kw)
        return unspecified()
    pre = spell.make_pre(case["ix"], s["kinds"], list(ra.dims), case["mode"]) if first else {}
    pre_before = _presnap(pre)
    got = call(spell.get, a, case["ix"], case["sp"], s["kinds"], mode=case["mode"], pre=pre, **kw)
    if common.snap(a) != before:
        return bad("operand modified by an indexing read")
    if first and _presnap(pre) != pre_before:
        return bad("the read modified the index object it was given: {} -> {}".format(pre_before, _presnap(pre)))
    if first:
        # the caller re-uses its index objects (same tuple / lists / {dim: index} mapping) for a second read: same answer
        again = call(spell.get, a, case["ix"], case["sp"], s["kinds"], mode=case["mode"], pre=pre, **kw)
        if isinstance(again, Raised) != isinstance(got, Raised) or (not isinstance(got, Raised) and common.describe(again) != common.describe(got)):
            return bad("a second read with the SAME index objects gives {} but the first read gave {}".format(common.describe(again), common.describe(got)))
    nontriv = any(ix[0] not in ("full", "e") for ix in case["ix"])
    if isinstance(expect, R.RefRaises):
        if isinstance(got, Raised) and issubclass(got.cls, expect.cls):
            return ok("raises-" + expect.cls.__name__, nontriv)
        return bad("expected {} ({}), got {}".format(expect.cls.__name__, expect.why, common.describe(got)))
    if isinstance(got, Raised):
        return bad("expected {}, but raised {}".format(expect[0], got), klass="unexpected-exception")
    m = D.compare_alts(got, expect, attrs=False)
    if m:
        return bad(m)
    e0 = expect[0]
    klass = "scalar" if not isinstance(e0, R.RA) else ("empty" if 0 in e0.shape else "array")
    if tol is not None:
        klass = "tol-" + klass
    return ok(klass, nontriv)


def snippet(case):
    if "objvals" in case:
        return "from mc.props import c01\nprint(c01.check({!r}))".format(case)
    s = case["a"]
    return ("from mc import domains as D, spell\na = D.build_impl({!r})\n"
            "print(spell.get(a, {!r}, {!r}, {!r}, tol={!r}, keepdims={!r}))").format(
                s, case["ix"], case["sp"], s["kinds"], case.get("tol") if case["sp"] != "nloc" else None, case.get("keepdims", False))


def triage_sig(case, detail, klass):
    import re
    if "objvals" in case:
        return (klass, "objvals", case["sp"])
    tags = sorted(set(ix[0] + ("[]" if ix[0] in ("l", "nd") and not ix[1] else "") for ix in case["ix"]))
    return (klass, case["mode"], case["sp"], "opt=" + str(case["a"].get("opt")), ",".join(tags), "tol" if "tol" in case else "",
            re.sub(r"[-0-9.]+", "#", detail)[:70])


CLASSIFIERS = {}
