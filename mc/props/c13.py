"""C13 - a Dataset's variables always share the Dataset's axes  (E2: explicit-state search over mutation histories).

state      one real Dataset, rebuilt by replaying its history on fresh objects; reference = RefDS (plain lists / dicts)
events     ds[k]=array (new / replacing / fewer / more / other dims, labels matching or mismatching on the first, second or
           only dimension -> the FAULT events), del ds[k], axis renames through the dataset / a variable / in bulk,
           label changes through ds.axes[d][i], ds.set_axis (list / dict / callable / name=), ds.axes[d] = Axis (by name and by
           position), ds.<dim> = labels, ds[k].axes[d][i] = v, ds.axes.append(Axis), rename_keys
invariants (every reached state)
           ds[k].axes[d] IS ds.axes[d]; ds.dims == dims used by the variables (+ directly appended, still unused axes);
           names / labels identical from the dataset and from every variable; variables well-formed; lock-step equality
           with the reference; a rejected assignment raises ValueError and leaves the snapshot unchanged
canonical form  axes (name, labels), variables (dims, values) sorted by key, identity pattern of every variable axis vs the
           registry.  These are all the fields a Dataset has besides attrs, so equal canonical forms have equal futures.
Not covered: renaming an axis to a name already in use, key order, attrs.
"""
import itertools
import numpy as np
from mc import common, domains as D, ref as R
from mc.engine import ok, bad, unspecified
from mc.common import call, Raised, DimArray, Dataset, Axis, py, same_list

ID = "C13"
TITLE = "a Dataset's variables always share the Dataset's axes"
RULE = ("breadth-first search over histories of Dataset mutations (alphabet in the module docstring, ~60 parameterised events, keys a/b/c, "
        "dims x/y/z/u) from 5 start states (differing on two dimensions at once; empty, constructed from equal-label arrays, constructed from differing labels = outer join, "
        "constructed with an unsorted axis; events include the inplace=False variants - whose returned copy is the Dataset from then on - chained "
        "and swapped rename_keys mappings a float32 axis relabelled with a value it cannot hold, a variable built on the dataset's own axes object), de-duplicated on the canonical form; every transition is executed on the real Dataset in "
        "lock-step with RefDS and all invariants are evaluated in every reached state; non-trivial = the transition changes the state "
        "or is a rejected assignment")
ASSUMPTIONS = ["RefDS (mc/props/c13.py) encodes the statement: shared registry, pruning of unused axes, rejection without side effect",
               "histories are replayed on fresh objects (no deep copies of live Datasets)"]

# z: float labels of large magnitude (Julian days); 'zbad' differs from them by two weeks, i.e. by less than 1e-5 of the magnitude
XL, YL, ZL, UL = [10, 20], ["a", "b"], [2451545.0, 2451546.0], [1, 2, 3]
V4L, V4ALT = [1.5, 2.5], 16777217
POOL = {   # arrays that can be assigned: dims + labels (values derive from the id)
    "s0": ([], []),
    "x": (["x"], [XL]), "xbad": (["x"], [[10, 30]]), "xlong": (["x"], [[10, 20, 30]]),
    "y": (["y"], [YL]), "ybad": (["y"], [["a", "c"]]),
    "xy": (["x", "y"], [XL, YL]), "yx": (["y", "x"], [YL, XL]),
    "xy_bad2": (["x", "y"], [XL, ["b", "a"]]), "xy_bad1": (["x", "y"], [[20, 10], YL]),
    "zx_bad": (["z", "x"], [ZL, [10, 30]]),     # new axis z is listed BEFORE the mismatching x
    "xz": (["x", "z"], [XL, ZL]), "z": (["z"], [ZL]), "u": (["u"], [UL]), "ubad": (["u"], [[1, 2, 4]]),
    "xw": (["x", "w"], [XL, [7, 8]]), "zbad": (["z"], [[2451559.0, 2451560.0]]),
    "vtrunc": (["v"], [[1, 2]]),     # integer labels equal to the TRUNCATED labels of v4 (1.5, 2.5): they disagree with them
    "v4": (["v"], [V4L]),       # single-precision labels: relabelled with a value that float32 cannot hold (V4ALT)
}
NONDA = {"list2": [1.5, 2.5], "scalar": 4.0}
KEYS = ["a", "b", "c"]
FRESH = ["p", "q", "r", "s"]


def bounds(tier):
    return {"depth": 3 if tier == "quick" else 4, "keys": KEYS, "pool": sorted(POOL) + sorted(NONDA), "start_states": 5}


def kind_of(labels):
    return "O" if labels and isinstance(labels[0], str) else ("f" if labels and isinstance(labels[0], float) else "i")


def pool_array(pid, key):
    dims, labels = POOL[pid]
    base = 1 + sorted(POOL).index(pid) * 3 + KEYS.index(key)
    s = D.spec(dims, labels, [kind_of(l) for l in labels], vk="f", base=base)
    if pid == "v4":
        s["ldt"] = ["float32"]
    return s


# ------------------------------------------------------------------------------------------
# reference model
# ------------------------------------------------------------------------------------------
class RefDS(object):
    def __init__(self):
        self.axes = []       # [name, labels, direct(bool: appended directly and not used yet)]
        self.vars = {}       # key -> (dims list, ndarray)

    def dims(self):
        return [a[0] for a in self.axes]

    def ax(self, name):
        for a in self.axes:
            if a[0] == name:
                return a
        return None

    def used(self, name, skip=None):
        return any(name in d for k, (d, v) in self.vars.items() if k != skip)

    def prune(self, names):
        for n in names:
            if not self.used(n):
                self.axes = [a for a in self.axes if a[0] != n]

    def assign(self, key, dims, labels, vals):
        """-> True (accepted) / False (rejected, state unchanged)"""
        for d, l in zip(dims, labels):
            a = self.ax(d)
            if a is not None and not (len(a[1]) == len(l) and same_list(a[1], l)):
                return False
        old = self.vars.get(key)
        for d, l in zip(dims, labels):
            a = self.ax(d)
            if a is None:
                self.axes.append([d, list(l), False])
            else:
                a[2] = False
        self.vars[key] = (list(dims), np.array(vals))
        if old is not None:
            self.prune([d for d in old[0] if d not in dims])
        return True

    def rename(self, old, new):
        self.ax(old)[0] = new
        for k, (d, v) in self.vars.items():
            self.vars[k] = ([new if x == old else x for x in d], v)


def canon(ds):
    ax = tuple((a.name, tuple(common.freeze(v) for v in py(a.values))) for a in ds.axes)
    vs = []
    for k in sorted(ds.keys()):
        v = dict.__getitem__(ds, k)
        ident = tuple(any(v.axes[i] is reg for reg in ds.axes) and v.axes[i] is ds.axes[v.axes[i].name] if v.axes[i].name in ds.dims else False
                      for i in range(len(v.axes)))
        vs.append((k, tuple(v.dims), common.values_key(v.values), ident, _keys(v), _keys(v.axes)))
    # (names of everything kept on the objects are part of the state: something remembered by the library distinguishes two states)
    return common.digest((ax, tuple(vs), _keys(ds), _keys(ds.axes), tuple(_keys(a) for a in ds.axes)))


def _keys(o):
    return tuple(sorted(k for k in (getattr(o, "__dict__", None) or {}) if isinstance(k, str)))


# ------------------------------------------------------------------------------------------
# events
# ------------------------------------------------------------------------------------------
def start_states():
    return [["start", "empty"], ["start", "equal"], ["start", "differ"], ["start", "unsorted"], ["start", "differ2"]]


def build_start(which):
    """-> (Dataset, RefDS) or Raised"""
    ref = RefDS()
    if which == "empty":
        return Dataset(), ref
    if which == "equal":
        sa, sb = pool_array("x", "a"), pool_array("xy", "b")
        ds = Dataset([("a", D.build_impl(sa)), ("b", D.build_impl(sb))])
        ref.assign("a", sa["dims"], sa["labels"], D.build_ref(sa).vals)
        ref.assign("b", sb["dims"], sb["labels"], D.build_ref(sb).vals)
        return ds, ref
    if which == "unsorted":
        sa = D.spec(["x", "y"], [[30, 10, 20], ["b", "a"]], ["i", "O"], base=3)
        ds = Dataset(a=D.build_impl(sa))
        ref.assign("a", sa["dims"], sa["labels"], D.build_ref(sa).vals)
        return ds, ref
    if which == "differ2":
        # labels differing on TWO dimensions at once, the second variable listing its dimensions in the other order: outer join on both
        sa = D.spec(["x", "y"], [[10, 20], ["a", "b"]], ["i", "O"], base=1)
        sb = D.spec(["y", "x"], [["b", "c"], [20, 30]], ["O", "i"], base=2)
        ds = Dataset([("a", D.build_impl(sa)), ("b", D.build_impl(sb))])
        ra, rb = D.build_ref(sa), D.build_ref(sb)
        va = np.full((3, 3), np.nan); va[:2, :2] = ra.vals
        vb = np.full((3, 3), np.nan); vb[1:, 1:] = rb.vals
        ref.assign("a", ["x", "y"], [[10, 20, 30], ["a", "b", "c"]], va)
        ref.assign("b", ["y", "x"], [["a", "b", "c"], [10, 20, 30]], vb)
        return ds, ref
    # differing labels: the constructor must align (outer join) first
    sa = D.spec(["x"], [[10, 20]], ["i"], base=1)
    sb = D.spec(["x", "y"], [[20, 30], ["a", "b"]], ["i", "O"], base=2)
    ds = Dataset([("a", D.build_impl(sa)), ("b", D.build_impl(sb))])
    ra, rb = D.build_ref(sa), D.build_ref(sb)
    xl = [10, 20, 30]
    va = np.array([ra.vals[0], ra.vals[1], np.nan])
    vb = np.full((3, 2), np.nan)
    vb[1:, :] = rb.vals
    ref.assign("a", ["x"], [xl], va)
    ref.assign("b", ["x", "y"], [xl, ["a", "b"]], vb)
    return ds, ref


def enabled(ref, tier):
    """events enabled in the reference state (the implementation state is in lock-step with it)"""
    ev = []
    dims = ref.dims()
    for key in KEYS:
        for pid in POOL:
            if tier == "quick" and pid in ("xw", "ubad", "xlong", "zbad", "v4") and key != "a":
                continue
            ev.append(["set", key, pid])
        if key == "c":
            for nid in NONDA:
                ev.append(["setraw", key, nid])
        if key in ref.vars:
            ev.append(["del", key])
        if key == "c" and dims and all(len(a[1]) for a in ref.axes):
            # a new variable built ON the dataset's own axes object (DimArray(values, axes=ds.axes)): the natural way to add one
            ev.append(["set_on_axes", key])
    fresh = [n for n in FRESH if n not in dims]
    for i, d in enumerate(dims):
        lab = ref.axes[i][1]
        alt = "zz" if kind_of(lab) == "O" else (V4ALT if lab[-1:] == V4L[-1:] else 99)
        if fresh:
            ev.append(["rename_axis", i, fresh[0]])
            ev.append(["rename_axes", d, fresh[0]])
            # the same through the inplace=False variants: the returned copy is the Dataset from then on (and the original is left alone)
            ev.append(["copy_set_axis_name", i, fresh[0]])
            if tier != "quick" or i == len(dims) - 1:
                ev.append(["copy_rename_axes", d, fresh[0]])
            if tier != "quick":
                ev.append(["set_axis_name", i, fresh[0]])
        if alt not in lab and lab:
            ev.append(["relabel_item", i, 0, alt])
            ev.append(["set_axis_dict", d, alt])
            ev.append(["axes_setitem_name", d, alt])
            ev.append(["axes_setitem_pos", i, alt])
            if fresh:     # the replacement Axis also carries another name: replace and rename in one step
                ev.append(["axes_setitem_rename", d if i % 2 == 0 else i, alt, fresh[0]])
            if tier != "quick" or i == len(dims) - 1:
                ev.append(["copy_set_axis_list", i, alt])
            if all(len(a[1]) for a in ref.axes) and (tier != "quick" or i == 0):
                # a bystander: COPIES of the axes list / of an array built on it get the axis replaced: the Dataset is not involved
                ev.append(["bystander_copy_setitem", i, alt])
            if tier != "quick":
                ev.append(["set_axis_list", i, alt])
                ev.append(["set_axis_call", i, alt])
                ev.append(["setattr_dim", d, alt])
        for key in ref.vars:
            vd = ref.vars[key][0]
            if d in vd:
                if fresh and (tier != "quick" or key == sorted(ref.vars)[0]):
                    ev.append(["var_rename", key, vd.index(d), fresh[0]])
                if alt not in lab and lab and (tier != "quick" or key == sorted(ref.vars)[-1]):
                    ev.append(["var_relabel", key, vd.index(d), 0, alt])
    # relabel one axis with the label ARRAY of another axis of the same length (the very ndarray object): afterwards the two axes carry equal
    # labels but must stay independent
    pairs = [(i, j) for i in range(len(dims)) for j in range(len(dims)) if i != j and len(ref.axes[i][1]) == len(ref.axes[j][1]) and ref.axes[i][1]
             and not same_list(ref.axes[i][1], ref.axes[j][1])]
    for i, j in (pairs[:1] if tier == "quick" else pairs):
        ev.append(["set_axis_from", i, j])
    if len(dims) >= 1 and len(fresh) >= len(dims):
        ev.append(["dims", fresh[:len(dims)]])
    if len(dims) >= 2:      # permutations of the names already in use (swap / rotation): must land on the right axes
        ev.append(["dims", dims[1:] + dims[:1]])
        ev.append(["rename_axes_map", dict(zip(dims, dims[1:] + dims[:1]))])
    if "u" not in dims:
        ev.append(["append_axis", "u"])
    ks = sorted(ref.vars)
    if ks:
        free = [k for k in KEYS if k not in ref.vars]
        if free:
            ev.append(["rename_keys", ks[0], free[0]])
            ev.append(["copy_rename_keys", ks[-1], free[0]])
            if len(ks) >= 2:     # a chain: the new name of one variable is the old name of another
                ev.append(["rename_keys_map", [[ks[0], ks[1]], [ks[1], free[0]]]])
        if len(ks) >= 2:
            ev.append(["rename_keys_map", [[ks[0], ks[1]], [ks[1], ks[0]]]])      # a swap
    return ev


def _relabeled(lab, alt):
    return [alt] + list(lab[1:])


def apply_impl(ds, ev, made=None):
    """returns None or raises.  made: the arrays assigned so far in this history, by (pool id, key): the SAME array object is assigned again
    when the history repeats an assignment (a Dataset must not keep hold of the Axis objects of the arrays given to it)"""
    k = ev[0]
    if k == "set":
        if made is None:
            arr = D.build_impl(pool_array(ev[2], ev[1]))
        else:
            if (ev[2], ev[1]) not in made:
                made[(ev[2], ev[1])] = D.build_impl(pool_array(ev[2], ev[1]))
            arr = made[(ev[2], ev[1])]
        ds[ev[1]] = arr
    elif k == "setraw":
        ds[ev[1]] = NONDA[ev[2]]
    elif k == "set_on_axes":
        ds[ev[1]] = DimArray(np.zeros([ax.size for ax in ds.axes]) + 5, axes=ds.axes)
    elif k == "del":
        del ds[ev[1]]
    elif k == "rename_axis":
        ds.axes[ev[1]].name = ev[2]
    elif k == "rename_axes":
        ds.rename_axes({ev[1]: ev[2]})
    elif k == "rename_axes_map":
        ds.rename_axes(dict(ev[1]))
    elif k == "set_axis_name":
        ds.set_axis(axis=ev[1], name=ev[2])
    elif k == "dims":
        ds.dims = tuple(ev[1])
    elif k == "relabel_item":
        ds.axes[ev[1]][ev[2]] = ev[3]
    elif k == "set_axis_dict":
        ds.set_axis({py(ds.axes[ev[1]].values[0]): ev[2]}, axis=ev[1])
    elif k == "set_axis_list":
        ds.set_axis(_relabeled(py(ds.axes[ev[1]].values), ev[2]), axis=ev[1])
    elif k == "set_axis_call":
        first = py(ds.axes[ev[1]].values[0])
        ds.set_axis(lambda v: ev[2] if v == first else v, axis=ev[1])
    elif k == "setattr_dim":
        setattr(ds, ev[1], _relabeled(py(ds.axes[ev[1]].values), ev[2]))
    elif k == "axes_setitem_name":
        old = ds.axes[ev[1]]
        ds.axes[ev[1]] = Axis(np.array(_relabeled(py(old.values), ev[2]), dtype=object if isinstance(ev[2], str) else None), old.name)
    elif k == "axes_setitem_pos":
        old = ds.axes[ev[1]]
        ds.axes[ev[1]] = Axis(np.array(_relabeled(py(old.values), ev[2]), dtype=object if isinstance(ev[2], str) else None), old.name)
    elif k == "bystander_copy_setitem":
        new = lambda old: Axis(np.array(_relabeled(py(old.values), ev[2]), dtype=object if isinstance(ev[2], str) else None), old.name)
        c = DimArray(np.zeros([ax.size for ax in ds.axes]) + 5, axes=ds.axes).copy()
        c.axes[ev[1]] = new(c.axes[ev[1]])
        ac = ds.axes.copy()
        ac[ev[1]] = new(ac[ev[1]])
    elif k == "set_axis_from":
        ds.set_axis(ds.axes[ev[2]].values, axis=ev[1])
    elif k == "axes_setitem_rename":
        old = ds.axes[ev[1]]
        ds.axes[ev[1]] = Axis(np.array(_relabeled(py(old.values), ev[2]), dtype=object if isinstance(ev[2], str) else None), ev[3])
    elif k == "var_rename":
        ds[ev[1]].axes[ev[2]].name = ev[3]
    elif k == "var_relabel":
        ds[ev[1]].axes[ev[2]][ev[3]] = ev[4]
    elif k == "append_axis":
        ds.axes.append(Axis(np.array(UL), "u"))
    elif k == "rename_keys":
        ds.rename_keys({ev[1]: ev[2]})
    elif k == "rename_keys_map":
        ds.rename_keys(dict((a, b) for a, b in ev[1]))
    elif k == "copy_set_axis_name":
        return ds.set_axis(axis=ev[1], name=ev[2], inplace=False)
    elif k == "copy_rename_axes":
        return ds.rename_axes({ev[1]: ev[2]}, inplace=False)
    elif k == "copy_set_axis_list":
        return ds.set_axis(_relabeled(py(ds.axes[ev[1]].values), ev[2]), axis=ev[1], inplace=False)
    elif k == "copy_rename_keys":
        return ds.rename_keys({ev[1]: ev[2]}, inplace=False)
    else:
        raise ValueError(ev)


def apply_ref(ref, ev):
    """-> 'ok' | 'reject' ; mutates ref only when accepted"""
    k = ev[0]
    if k == "set":
        s = pool_array(ev[2], ev[1])
        return "ok" if ref.assign(ev[1], s["dims"], s["labels"], D.build_ref(s).vals) else "reject"
    if k == "setraw":
        v = np.asarray(NONDA[ev[2]], dtype=float)
        dims = ["x%d" % i for i in range(v.ndim)]
        labels = [list(range(n)) for n in v.shape]
        return "ok" if ref.assign(ev[1], dims, labels, v) else "reject"
    if k == "set_on_axes":
        return "ok" if ref.assign(ev[1], ref.dims(), [list(a[1]) for a in ref.axes], np.zeros([len(a[1]) for a in ref.axes]) + 5) else "reject"
    if k == "del":
        d = ref.vars.pop(ev[1])[0]
        ref.prune(d)
    elif k in ("rename_axis", "set_axis_name", "copy_set_axis_name"):
        ref.rename(ref.axes[ev[1]][0], ev[2])
    elif k in ("rename_axes", "copy_rename_axes"):
        ref.rename(ev[1], ev[2])
    elif k in ("dims", "rename_axes_map"):
        mapping = dict(zip(ref.dims(), ev[1])) if k == "dims" else dict(ev[1])
        for a in ref.axes:                      # simultaneous renaming
            a[0] = mapping.get(a[0], a[0])
        for key, (d, v) in ref.vars.items():
            ref.vars[key] = ([mapping.get(x, x) for x in d], v)
    elif k in ("relabel_item", "set_axis_list", "set_axis_call", "axes_setitem_pos", "copy_set_axis_list"):
        a = ref.axes[ev[1]]
        a[1] = _relabeled(a[1], ev[-1])
    elif k in ("set_axis_dict", "setattr_dim", "axes_setitem_name"):
        a = ref.ax(ev[1])
        a[1] = _relabeled(a[1], ev[2])
    elif k == "bystander_copy_setitem":
        pass
    elif k == "set_axis_from":
        ref.axes[ev[1]][1] = list(ref.axes[ev[2]][1])
    elif k == "axes_setitem_rename":
        a = ref.ax(ev[1]) if isinstance(ev[1], str) else ref.axes[ev[1]]
        a[1] = _relabeled(a[1], ev[2])
        ref.rename(a[0], ev[3])
    elif k == "var_rename":
        ref.rename(ref.vars[ev[1]][0][ev[2]], ev[3])
    elif k == "var_relabel":
        a = ref.ax(ref.vars[ev[1]][0][ev[2]])
        a[1] = _relabeled(a[1], ev[4])
    elif k == "append_axis":
        ref.axes.append(["u", list(UL), True])
    elif k in ("rename_keys", "copy_rename_keys"):
        ref.vars[ev[2]] = ref.vars.pop(ev[1])
    elif k == "rename_keys_map":
        m = dict((a, b) for a, b in ev[1])      # simultaneous
        ref.vars = dict((m.get(key, key), v) for key, v in ref.vars.items())
    else:
        raise ValueError(ev)
    return "ok"


def invariants(ds, ref):
    """-> None or message"""
    if list(ds.dims) != ref.dims():
        return "dataset dims {} expected {} (dims used by the variables{})".format(
            ds.dims, ref.dims(), " + directly appended" if any(a[2] for a in ref.axes) else "")
    for i, a in enumerate(ref.axes):
        if not same_list(py(ds.axes[i].values), a[1]):
            return "dataset axis {} has labels {} expected {}".format(a[0], py(ds.axes[i].values), a[1])
    if sorted(ds.keys()) != sorted(ref.vars):
        return "keys {} expected {}".format(sorted(ds.keys()), sorted(ref.vars))
    for k in ds.keys():
        v = dict.__getitem__(ds, k)
        rd, rv = ref.vars[k]
        w = common.wellformed(v)
        if w:
            return "variable {} malformed: {}".format(k, w)
        if list(v.dims) != rd:
            return "variable {} has dims {} expected {}".format(k, v.dims, rd)
        for i, d in enumerate(rd):
            if d not in ds.dims:
                return "variable {} uses dimension {} which the dataset does not list".format(k, d)
            if v.axes[i] is not ds.axes[d]:
                return "variable {}: axis {!r} is not the dataset's Axis object (labels var {} / dataset {})".format(
                    k, d, py(v.axes[i].values), py(ds.axes[d].values))
            if not same_list(py(v.axes[i].values), ref.ax(d)[1]):
                return "variable {}: labels of {} are {} expected {}".format(k, d, py(v.axes[i].values), ref.ax(d)[1])
        if not common.same_values(v.values, rv):
            return "variable {}: values {} expected {}".format(k, py(v.values), py(rv))
    return None


class Space(object):
    def initial(self, tier):
        return [[s] for s in start_states()]

    def _replay_ref(self, hist):
        which = hist[0][1]
        _, ref = build_start(which)
        for ev in hist[1:]:
            apply_ref(ref, ev)
        return ref

    def events(self, hist, tier):
        if hist[0][1] == "differ2" and tier == "quick":
            return []       # quick tier: the construction itself is checked; the thorough tier explores from this state as well
        return enabled(self._replay_ref(hist), tier)

    def run(self, hist):
        built = call(build_start, hist[0][1])
        if isinstance(built, Raised):
            return bad("Dataset construction ({}) raised {}".format(hist[0][1], built), klass="unexpected-exception")
        ds, ref = built
        m = invariants(ds, ref)
        if m:
            return bad("start state {}: {}".format(hist[0][1], m))
        changed = True
        made = {}
        for n, ev in enumerate(hist[1:]):
            last = n == len(hist) - 2
            pre = common.snap(ds) if last else None
            verdict = apply_ref(ref, ev)
            r = call(apply_impl, ds, ev, made)
            if verdict == "reject":
                if not (isinstance(r, Raised) and issubclass(r.cls, ValueError)):
                    return bad("step {} {}: labels disagree with an existing axis, expected ValueError, got {}".format(n, ev, common.describe(r)))
                if last and common.snap(ds) != pre:
                    return bad("step {} {}: rejected assignment changed the dataset: now {}".format(n, ev, common.describe(ds)))
                if last:
                    m = invariants(ds, ref)
                    if m:
                        return bad("after rejected {}: {}".format(ev, m))
                    return ok("rejected", True, canon=canon(ds), terminal=True)   # state unchanged: nothing new to expand
            elif isinstance(r, Raised):
                return bad("step {} {} raised {}".format(n, ev, r), klass="unexpected-exception")
            elif ev[0].startswith("copy_"):
                if not isinstance(r, Dataset):
                    return bad("step {} {}: expected a new Dataset, got {}".format(n, ev, common.describe(r)))
                if last and (common.snap(ds) != pre or r is ds):
                    return bad("step {} {}: the inplace=False variant changed the dataset it was called on: now {}".format(n, ev, common.describe(ds)))
                ds = r
            if last:
                changed = common.snap(ds) != pre or ev[0].startswith("copy_")
        m = invariants(ds, ref)
        if m:
            return bad("after {}: {}".format(hist[-1], m))
        return ok("accepted" if len(hist) > 1 else "start", changed, canon=canon(ds))


SPACES = {"ds": Space()}


def bfs(tier, ctx):
    ctx.bfs("ds", bounds(tier)["depth"], time_cap=300 if tier == "quick" else 3000)


def state_key(case):
    return case["hist"][:1]


def snippet(case):
    return "from mc.props import c13\nprint(c13.SPACES['ds'].run({!r}))".format(case["hist"])


CLASSIFIERS = {}
