"""C15 - operations do not modify their operands; copies are independent.

OPERAND IMMUTABILITY (E1 over the union alphabet mc/alphabet.py)
  every public non-in-place operation (one entry per argument class: indexing, put(inplace=False), arithmetic, comparisons,
  reductions, reshaping, reindexing, aligning with / without sorting, sort_axis, interpolation, stacking, concatenating,
  serialisation, Dataset construction and Dataset operations) is executed on operands built to make a mutation visible:
  unsorted axes, nested mutable metadata, arrays that share Axis objects with other live arrays (squeeze / transpose aliases,
  Dataset variables), a ';' in a dimension name for the reshape family.  Oracle: the full snapshot (values bytes, dtype, dims,
  labels, axis metadata, metadata - deep) of EVERY operand and alias is identical before and after the call, whether the call
  returns or raises.
COPY INDEPENDENCE (E2, depth 2: copy, then one in-place mutator on either side)
  c = a.copy(); every in-place mutator applied to c must not show in a, and vice versa.
Not covered: aliasing between an operation's RESULT and its operand (e.g. -a shares a's Axes list): the property only
speaks about the operand being unchanged by the operation itself.
"""
import copy as _copy
import numpy as np
from mc import common, alphabet
from mc.engine import ok, bad, unspecified
from mc.common import call, Raised, DimArray, Dataset, Axis, py

ID = "C15"
TITLE = "operations do not modify their operands; copies are independent"
RULE = ("product of (operand variant: fresh / squeeze-alias / transposed-alias / ';' in a dimension name) x (every entry of the union "
        "alphabet, ~170 operation x argument-class pairs) with snapshots of all operands and aliases before/after; plus copy() followed "
        "by each of ~25 in-place mutators on the copy or on the original; non-trivial = the operation ran on operands carrying "
        "unsorted axes and mutable metadata (every case)")
ASSUMPTIONS = ["common.snap() captures values bytes, dtype, dims, labels, axis metadata and metadata (deep-frozen)"]


def bounds(tier):
    return {"operations": len(alphabet.OPS), "variants": ["fresh", "squeeze", "T", "semicolon"], "mutators": len(MUTATORS)}


MENU_PROPS = {"C01": 7, "C02": 23, "C03": 11, "C04": 5, "C06": 9, "C07": 3, "C08": 17, "C09": 3, "C10": 2, "C11": 3, "C12": 3, "C14": 2, "C17": 3, "C18": 3}


def shards(tier):
    out = [{"part": "ops", "variant": v} for v in ("fresh", "squeeze", "T", "semicolon")] + [{"part": "copy"}]
    # the argument classes generated for the other properties: a strided sample of their quick cases is re-executed here and
    # only "operand modified" outcomes are reported (each of those checks snapshots its operands around the call)
    import importlib
    for pid, stride in sorted(MENU_PROPS.items()):
        mod = importlib.import_module("mc.props." + pid.lower())
        n = len(mod.shards("quick"))
        for i in range(n):
            out.append({"part": "menus", "prop": pid, "shard": i, "stride": stride if tier == "quick" else max(1, stride // 3)})
    return out


def cases(sh, tier):
    if sh["part"] == "menus":
        import importlib
        mod = importlib.import_module("mc.props." + sh["prop"].lower())
        shard = mod.shards("quick")[sh["shard"]]
        for k, c in enumerate(mod.cases(shard, "quick")):
            if (k + sh["shard"]) % sh["stride"] == 0:
                yield {"menu": sh["prop"], "case": c}
        return
    if sh["part"] == "ops":
        for name in sorted(alphabet.OPS):
            if sh["variant"] == "semicolon" and not alphabet.adapt(name, True):
                continue
            yield {"op": name, "variant": sh["variant"]}
    else:
        for m in sorted(MUTATORS):
            for side in ("copy", "orig"):
                # the statement is about DimArray.copy (Dataset.copy is documented shallow); 'Grouped' = a DimArray with a flattened axis
                for kind in ("DimArray", "Axis", "Axes", "Grouped"):
                    if kind in MUTATORS[m][0]:
                        yield {"mut": m, "side": side, "kind": kind}


def state_key(case):
    if "menu" in case:
        return [case["menu"], case["case"].get("a", case["case"].get("ds", case["case"].get("in", case["case"].get("vars"))))]
    return case.get("variant") or case.get("kind")


def check(case):
    if "menu" in case:
        import importlib
        mod = importlib.import_module("mc.props." + case["menu"].lower())
        r = mod.check(case["case"])
        if not r["ok"] and "modif" in r.get("detail", ""):
            return bad("[case of {}] {}".format(case["menu"], r["detail"]))
        return ok("menu-" + case["menu"], True)
    if "mut" in case:
        return _check_copy(case)
    semi = case["variant"] == "semicolon"
    env = alphabet.make_env("fresh" if semi else case["variant"], semicolon=semi)
    before = {k: common.snap(v) for k, v in env.operands.items()}
    res = call(alphabet.OPS[case["op"]], env)
    for k, v in env.operands.items():
        if common.snap(v) != before[k]:
            return bad("operation {!r} ({} operands) modified operand {!r}: now {}".format(case["op"], case["variant"], k, common.describe(v, 500)))
    klass = "raised" if isinstance(res, Raised) else "returned"
    return ok(klass, True)


# in-place mutators: name -> (kinds it applies to, function(obj))
def _cell(o):
    o.values[(0,) * o.values.ndim] = -5


MUTATORS = {
    "cell_setitem": (["DimArray"], lambda o: o.__setitem__((10, "a"), -1.0)),
    "values_cell": (["DimArray", "Axis"], _cell),
    "values_assign": (["DimArray"], lambda o: setattr(o, "values", np.zeros(o.shape))),
    "fill": (["DimArray"], lambda o: o.fill(7)),
    "put_inplace": (["DimArray"], lambda o: o.put(20, 3.5, axis="x", inplace=True)),
    "fillna_inplace": (["DimArray"], lambda o: o.fillna(0.5, inplace=True)),
    "setna_inplace": (["DimArray"], lambda o: o.setna(o.values.reshape(-1)[0], inplace=True)),
    "label_item": (["DimArray", "Dataset"], lambda o: o.axes["x"].__setitem__(0, 99)),
    "label_all": (["DimArray", "Dataset"], lambda o: setattr(o, "x", [7, 8, 9])),
    "labels_setter": (["DimArray"], lambda o: setattr(o, "labels", ([1, 2, 3], ["p", "q"]))),
    "axis_rename": (["DimArray", "Dataset"], lambda o: setattr(o.axes["x"], "name", "w")),
    "dims_setter": (["DimArray", "Dataset"], lambda o: setattr(o, "dims", ("p", "q"))),
    "set_axis": (["DimArray", "Dataset"], lambda o: o.set_axis([4, 5, 6], axis="x")),
    "axis_values_setter": (["DimArray", "Axis", "Dataset"], lambda o: setattr(o if isinstance(o, Axis) else o.axes["x"], "values", np.array([4, 5, 6]))),
    "axis_setitem": (["Axis"], lambda o: o.__setitem__(1, 55)),
    "axis_name": (["Axis"], lambda o: setattr(o, "name", "w")),
    "axis_sort": (["Axis"], lambda o: o.sort()),
    "axes_item_label": (["Axes"], lambda o: o[0].__setitem__(0, 99)),
    "axes_replace": (["Axes"], lambda o: o.__setitem__(0, Axis(np.array([7, 8, 9]), "x"))),
    "attr_set": (["DimArray", "Axis", "Dataset"], lambda o: setattr(o, "newmeta", 1)),
    "attr_del": (["DimArray", "Axis", "Dataset"], lambda o: o.attrs.pop("units")),
    "attr_mutable_value": (["DimArray", "Axis", "Dataset"], lambda o: o.attrs["meta"]["k"].append(3)),
    "attr_replace": (["DimArray", "Axis", "Dataset"], lambda o: setattr(o, "attrs", {"only": 1})),
    "axis_attr_set": (["DimArray", "Dataset"], lambda o: o.axes["x"].attrs.__setitem__("long", "changed")),
    "axis_attr_mutable": (["DimArray", "Dataset"], lambda o: o.axes["x"].attrs["lst"].append(2)),
    # a flattened (grouped) axis keeps its member axes: they are labels and axis names of the array too
    "member_label": (["Grouped"], lambda o: o.axes[0].axes[0].__setitem__(0, 99)),
    "member_name": (["Grouped"], lambda o: setattr(o.axes[0].axes[1], "name", "w")),
    "member_attr": (["Grouped"], lambda o: o.axes[0].axes[0].attrs.__setitem__("long", "changed")),
    "grouped_cell": (["Grouped"], _cell),
    "grouped_attr": (["Grouped"], lambda o: o.attrs["meta"]["k"].append(3)),
    "unflatten_relabel": (["Grouped"], lambda o: o.unflatten().axes["x"].__setitem__(0, 99)),
    "ds_setitem": (["Dataset"], lambda o: o.__setitem__("new", DimArray(np.zeros(3), axes=[Axis(np.array([30, 10, 20]), "x")]))),
    "ds_delitem": (["Dataset"], lambda o: o.__delitem__("a")),
    "ds_var_cell": (["Dataset"], lambda o: _cell(o["a"])),
    "ds_var_attr": (["Dataset"], lambda o: o["a"].attrs.__setitem__("q", 1)),
}


def _make(kind):
    from mc import domains as D
    s = D.spec(["x", "y"], [[30, 10, 20], ["b", "a"]], ["i", "O"], base=1, attrs={"units": "m", "meta": {"k": [1, 2]}},
               axattrs={"x": {"long": "X", "lst": [1]}, "y": {"units": "s"}})
    a = D.build_impl(s)
    if kind == "DimArray":
        return a
    if kind == "Grouped":
        return a.flatten()
    if kind == "Axis":
        ax = a.axes["x"]
        ax.attrs["units"] = "m"
        ax.attrs["meta"] = {"k": [1, 2]}
        return ax
    if kind == "Axes":
        return a.axes
    ds = Dataset()
    ds["a"] = a
    ds["c"] = D.build_impl(D.spec(["x"], [[30, 10, 20]], ["i"], base=3))
    ds.attrs["units"] = "m"
    ds.attrs["meta"] = {"k": [1, 2]}
    return ds


def _snap(o):
    if isinstance(o, common.Axes):
        return tuple(common.axis_snap(ax) for ax in o)
    if isinstance(o, DimArray) and any(hasattr(ax, "axes") for ax in o.axes):      # grouped axes: the member axes are part of the array
        members = tuple(tuple(common.axis_snap(m) for m in ax.axes) for ax in o.axes if hasattr(ax, "axes"))
        un = call(o.unflatten)
        return (common.snap(o), members, common.snap(un) if not isinstance(un, Raised) else "unflatten-raises")
    return common.snap(o)


def _check_copy(case):
    kinds, fn = MUTATORS[case["mut"]]
    orig = _make(case["kind"])
    cp = call(lambda: orig.copy())
    if isinstance(cp, Raised):
        return bad("{}.copy() raised {}".format(case["kind"], cp), klass="unexpected-exception")
    if _snap(cp) != _snap(orig):
        return bad("{}.copy() differs from the original: {} vs {}".format(case["kind"], common.describe(cp), common.describe(orig)))
    target, other = (cp, orig) if case["side"] == "copy" else (orig, cp)
    before_other = _snap(other)
    before_target = _snap(target)
    r = call(fn, target)
    if _snap(other) != before_other:
        return bad("{}: mutator {!r} applied to the {} shows through in the {}: {}".format(
            case["kind"], case["mut"], "copy" if case["side"] == "copy" else "original",
            "original" if case["side"] == "copy" else "copy", common.describe(other, 500)))
    changed = _snap(target) != before_target
    return ok("mutated" if changed else ("mutator-raised" if isinstance(r, Raised) else "mutator-noop"), changed)


def snippet(case):
    return "from mc.props import c15\nprint(c15.check({!r}))".format(case)


def triage_sig(case, detail, klass):
    import re
    return (klass, case.get("op") or case.get("mut"), case.get("variant") or case.get("kind"), re.sub(r"[-0-9.]+", "#", detail)[:120])


CLASSIFIERS = {}
