"""C08 - reductions equal NumPy's along the named axis and drop only that axis.

clause -> observable -> oracle
  a.f(axis=d) (name / position / negative) == NumPy's f over the members of every slice along d
        -> values  -> np.f applied to the python list of slice members gathered by nested loops (the axis
           bookkeeping is the reference's own; np.f is the oracle the property names)
  result labelled with the remaining axes in original order, attrs carried     -> dims, labels, attrs
  axis=None -> scalar over everything; tuple of dims -> reduction over all of them at once
  skipna=False: NaN anywhere in a slice -> NaN (median included); skipna=True: NaNs ignored
        (all-NaN slice: sum -> 0, prod -> 1 as np.nansum / np.nanprod; all / any identity or NaN; others NaN)
  percentile(a, q, axis): np.percentile per slice; list q -> leading '<axis>_percentile' axis labelled by q
Where NumPy itself raises for the dtype (e.g. ptp on bool) the implementation may raise as well.
"""
import itertools
import numpy as np
from mc import common, domains as D, ref as R
from mc.engine import ok, bad, unspecified
from mc.common import call, Raised, DimArray, py, same_scalar

ID = "C08"
VARIANT_SWEEP = True      # thorough tier: every case on every history variant of its array (see mc/domains.py VSHIFT)
TITLE = "reductions equal NumPy's along the named axis"
RULE = ("product of (float/int/bool arrays 1-4D, every shape with sizes 1-3 [1-4 thorough for <=3D], axes of distinct kinds, NaN "
        "patterns none / one cell / one whole slice per axis / all) x 11 reductions + percentile x axis in {None, every "
        "position, every name, -1, every ordered pair/triple of names} x skipna; non-trivial = array has more than one cell")
ASSUMPTIONS = ["np.<f> on a 1-D list of slice members is the oracle (named by the property); rtol 1e-12 for mean/var/std/sum/prod",
               "all-NaN slices under skipna=True: the empty reduction (identity for sum/prod as np.nansum/np.nanprod give; identity or NaN for all/any; NaN for the others)"]
FUNCS = ["sum", "prod", "mean", "var", "std", "min", "max", "ptp", "all", "any", "median"]
NAMES = ["x", "y", "z", "t"]
KINDS = ["i", "O", "f", "i"]
IDENT = {"sum": 0, "prod": 1, "all": True, "any": False}


def bounds(tier):
    return {"max_ndim": 4, "sizes": [1, 2, 3] if tier == "quick" else [1, 2, 3, 4], "funcs": FUNCS + ["percentile"]}


def _shapes(tier):
    sizes = [1, 2, 3]
    out = []
    for nd in (1, 2, 3):
        ss = sizes if (tier == "quick" or nd == 3) else [1, 2, 3, 4]
        out.extend(itertools.product(ss, repeat=nd))
    four = list(itertools.product([1, 2], repeat=4)) + [(2, 1, 3, 2), (3, 2, 1, 2), (1, 3, 2, 1)]
    out.extend(four if tier != "quick" else four[::3])
    return out


def _nan_patterns(shape):
    n = int(np.prod(shape))
    pats = [()]
    if n >= 1:
        pats.append((0,))
    if n >= 3:
        pats.append((n // 2,))
    idx = np.arange(n).reshape(shape)
    for ax in range(len(shape)):
        if shape[ax] > 1 and n > shape[ax]:
            sl = [slice(None)] * len(shape)
            sl[ax] = shape[ax] - 1
            pats.append(tuple(int(v) for v in idx[tuple(sl)].reshape(-1)))   # one whole slice
        if len(shape) >= 2:
            sl = [0] * len(shape)
            sl[ax] = slice(None)
            pats.append(tuple(int(v) for v in idx[tuple(sl)].reshape(-1)))   # one whole fibre (all-NaN slice when reducing ax)
    pats.append(tuple(range(n)))
    return list(dict.fromkeys(pats))


def shards(tier):
    out = []
    k = 0
    for shape in _shapes(tier):
        for vk in ("f", "i", "b", "f4"):
            if vk == "f4" and tier == "quick" and (sum(shape) + len(shape)) % 3:
                continue        # single precision: every third shape in the quick tier
            pats = _nan_patterns(shape) if vk in ("f", "f4") else [()]
            for nan in pats:
                out.append({"shape": list(shape), "vk": vk, "nan": list(nan), "k": k}); k += 1
    return out


def _spec(sh):
    shape = sh["shape"]
    nd = len(shape)
    labels = [D.labels_of(KINDS[i], shape[i], ["shuf", "inc", "dec", "inc"][i]) for i in range(nd)]
    return D.spec(NAMES[:nd], labels, KINDS[:nd], vk=sh["vk"], base=3, nan=sh["nan"], var=D.VARIANTS[sh["k"] % len(D.VARIANTS)],
                  attrs={"units": "mm", "k": 3})


def _axes_args(nd):
    out = [("none", None)]
    for i in range(nd):
        out.append(("pos", i))
        out.append(("name", NAMES[i]))
    out.append(("neg", -1))
    if nd >= 2:
        for r in (2, 3):
            if r <= nd:
                for t in itertools.permutations(range(nd), r):
                    out.append(("tuple", [NAMES[i] for i in t]))
    return out


def cases(sh, tier):
    s = _spec(sh)
    nd = len(sh["shape"])
    for kind, ax in _axes_args(nd):
        for f in FUNCS:
            for skipna in (False, True):
                yield {"a": s, "f": f, "axis": ax, "ak": kind, "skipna": skipna}
            if sh["vk"] in ("f", "f4") and not sh["nan"] and kind in ("name", "none"):
                yield {"a": s, "f": f, "axis": ax, "ak": kind, "skipna": True, "again": "poke"}
                if f in ("sum", "max", "any"):
                    yield {"a": s, "f": f, "axis": ax, "ak": kind, "skipna": True, "again": "fill"}
        if kind in ("pos", "name", "neg"):
            for q in (50, [50], [10, 90]):
                yield {"a": s, "f": "percentile", "axis": ax, "ak": kind, "q": q}


def state_key(case):
    return case["a"]


def _np_reduce(f, members, skipna):
    """-> list of acceptable values for one slice"""
    arr = np.array(members)
    if skipna and arr.dtype.kind == "f":
        keep = arr[~np.isnan(arr)]
        if keep.size == 0:
            # nothing left once the missing values are ignored: the empty reduction, i.e. the identity where one
            # exists (sum 0, prod 1, all True, any False - what np.nansum / np.nanprod return), NaN otherwise
            if f in IDENT:
                # sum / prod: np.nansum / np.nanprod define it; all / any: "NaNs are ignored as missing values" leaves the empty reduction
                # np.all([]) / np.any([]) (NaN is not an answer to all / any; the library itself returns the identity for all-NaN slices)
                return [IDENT[f]]
            return [float("nan")]
        arr = keep
    return [getattr(np, f)(arr)]


def check(case):
    s = case["a"]
    ra = D.build_ref(s)
    a = D.build_impl(s)
    r = _judge(a, ra, case)
    if not r["ok"] or r.get("unspecified") or not case.get("again") or ra.vals.dtype.kind != "f" or not ra.vals.size:
        return r
    # the same reduction once more on the SAME array after a missing value was written into it behind the library's back - directly into
    # .values (as the library's own tests do) or with fill(): what the first call found out about the data must not be remembered
    pos = (0,) * ra.ndim
    v2 = ra.vals.copy()
    if case["again"] == "poke":
        a.values[pos] = np.nan
        v2[pos] = np.nan
    else:
        res = call(a.fill, np.nan)
        if isinstance(res, Raised):
            return r
        v2[...] = np.nan
    ra2 = R.RA(ra.dims, ra.labels, v2, ra.attrs)
    r2 = _judge(a, ra2, case)
    if not r2["ok"]:
        return bad("second call after NaN was written into the array ({}): {}".format(case["again"], r2.get("detail")), klass=r2.get("klass", "mismatch"))
    return r


def _judge(a, ra, case):
    s = case["a"]
    before = common.snap(a)
    f, ax = case["f"], case["axis"]
    nd = ra.ndim
    if case["ak"] == "tuple":
        red = [ra.dims.index(d) for d in ax]
        axarg = tuple(ax)
    elif ax is None:
        red = list(range(nd)); axarg = None
    elif isinstance(ax, str):
        red = [ra.dims.index(ax)]; axarg = ax
    else:
        red = [ax % nd]; axarg = ax
    keep = [i for i in range(nd) if i not in red]
    if f == "percentile":
        return _check_percentile(case, a, ra, red[0], before)
    got = call(getattr(a, f), axis=axarg, skipna=case["skipna"])
    if common.snap(a) != before:
        return bad("{} modified its operand".format(f))
    # numpy's own verdict on this dtype
    try:
        getattr(np, f)(ra.vals.reshape(-1)[:1])
        np_raises = False
    except Exception:
        np_raises = True
    if np_raises:
        return unspecified("numpy-raises")
    if isinstance(got, Raised):
        return bad("{}(axis={!r}, skipna={}) raised {}".format(f, axarg, case["skipna"], got), klass="unexpected-exception")
    rtol = 1e-12 if f in ("mean", "var", "std", "sum", "prod") else 0.0
    if s["vk"] == "f4" and rtol:
        rtol = 2e-6       # single precision data: the order of summation shows in the last bits
    keepshape = [ra.shape[i] for i in keep]
    redshape = [ra.shape[i] for i in red]
    nontrivial = ra.vals.size > 1
    if not keep:
        members = [ra.vals[pos] for pos in R.all_positions(ra.shape)]
        alts = _np_reduce(f, members, case["skipna"])
        gv = got.values[()] if isinstance(got, DimArray) and got.ndim == 0 else got
        if isinstance(gv, DimArray) or isinstance(gv, np.ndarray) and gv.ndim > 0:
            return bad("{}(axis={!r}) over all dimensions should be a scalar, got {}".format(f, axarg, common.describe(got)))
        if not any(same_scalar(gv, e, rtol) for e in alts):
            return bad("{}(axis={!r}, skipna={}) = {!r} expected {!r}".format(f, axarg, case["skipna"], py(gv), py(alts)))
        return ok("scalar", nontrivial)
    if not isinstance(got, DimArray):
        return bad("{}(axis={!r}, skipna={}) should keep dims {} but returned {}".format(
            f, axarg, case["skipna"], [ra.dims[i] for i in keep], common.describe(got)))
    if list(got.dims) != [ra.dims[i] for i in keep]:
        return bad("{}(axis={!r}): dims {} expected {}".format(f, axarg, got.dims, [ra.dims[i] for i in keep]))
    w = common.wellformed(got)
    if w:
        return bad("malformed result: " + w)
    for j, i in enumerate(keep):
        if not common.same_list(py(got.axes[j].values), ra.labels[i]):
            return bad("{}(axis={!r}): labels of {} are {} expected {}".format(f, axarg, ra.dims[i], py(got.axes[j].values), ra.labels[i]))
    if tuple(got.values.shape) != tuple(keepshape):
        return bad("shape {} expected {}".format(got.values.shape, keepshape))
    for kpos in R.all_positions(keepshape):
        members = []
        for rpos in R.all_positions(redshape):
            pos = [0] * nd
            for j, i in enumerate(keep):
                pos[i] = kpos[j]
            for j, i in enumerate(red):
                pos[i] = rpos[j]
            members.append(ra.vals[tuple(pos)])
        alts = _np_reduce(f, members, case["skipna"])
        gv = got.values[kpos]
        if not any(same_scalar(gv, e, rtol) for e in alts):
            return bad("{}(axis={!r}, skipna={}) at {} = {!r} expected {!r} (slice {})".format(
                f, axarg, case["skipna"], dict(zip(got.dims, kpos)), py(gv), py(alts), py(members)))
    if common.freeze(dict(got.attrs)) != common.freeze(ra.attrs):
        return bad("{}(axis={!r}): attrs {} expected {}".format(f, axarg, dict(got.attrs), ra.attrs))
    return ok("array", nontrivial)


def _check_percentile(case, a, ra, p, before):
    q = case["q"]
    got = call(common.da.percentile, a, q, axis=case["axis"])
    if common.snap(a) != before:
        return bad("percentile modified its operand")
    if ra.vals.dtype.kind == "b":
        return unspecified("percentile-bool")
    if isinstance(got, Raised):
        return bad("percentile({!r}, axis={!r}) raised {}".format(q, case["axis"], got), klass="unexpected-exception")
    nd = ra.ndim
    keep = [i for i in range(nd) if i != p]
    keepshape = [ra.shape[i] for i in keep]
    qs = q if isinstance(q, list) else [q]
    exp_dims = [ra.dims[i] for i in keep]
    if isinstance(q, list):
        exp_dims = [ra.dims[p] + "_percentile"] + exp_dims
    if not exp_dims:
        gv = got.values[()] if isinstance(got, DimArray) else got
        members = [ra.vals[(k,)] for k in range(ra.shape[0])]
        e = np.percentile(np.array(members), q)
        return ok("pct-scalar") if same_scalar(gv, e, 2e-6 if case["a"]["vk"] == "f4" else 1e-12) else bad("percentile = {!r} expected {!r}".format(py(gv), py(e)))
    if not isinstance(got, DimArray) or list(got.dims) != exp_dims:
        return bad("percentile({!r}, axis={!r}): expected dims {}, got {}".format(q, case["axis"], exp_dims, common.describe(got)))
    w = common.wellformed(got)
    if w:
        return bad("malformed percentile result: " + w)
    off = 1 if isinstance(q, list) else 0
    if off and not common.same_list(py(got.axes[0].values), qs):
        return bad("percentile axis labels {} expected {}".format(py(got.axes[0].values), qs))
    for j, i in enumerate(keep):
        if not common.same_list(py(got.axes[j + off].values), ra.labels[i]):
            return bad("percentile: labels of {} are {} expected {}".format(ra.dims[i], py(got.axes[j + off].values), ra.labels[i]))
    for kpos in R.all_positions(keepshape):
        members = []
        for r in range(ra.shape[p]):
            pos = [0] * nd
            for j, i in enumerate(keep):
                pos[i] = kpos[j]
            pos[p] = r
            members.append(ra.vals[tuple(pos)])
        for qi, qq in enumerate(qs):
            e = np.percentile(np.array(members), qq)
            gv = got.values[((qi,) if off else ()) + tuple(kpos)]
            if not same_scalar(gv, e, 2e-6 if case["a"]["vk"] == "f4" else 1e-12):
                return bad("percentile({}) at {} = {!r} expected {!r}".format(qq, kpos, py(gv), py(e)))
    if common.freeze(dict(got.attrs)) != common.freeze(ra.attrs):
        return bad("percentile: attrs {} expected {} (metadata not carried)".format(dict(got.attrs), ra.attrs))
    return ok("pct-array")


def snippet(case):
    return "from mc.props import c08\nprint(c08.check({!r}))".format(case)


def triage_sig(case, detail, klass):
    import re
    return (klass, case["f"], case["ak"], "skipna=%s" % case.get("skipna"), case["a"]["vk"], "nan" if case["a"].get("nan") else "",
            re.sub(r"[-0-9.]+", "#", detail)[:80])


CLASSIFIERS = {}
