"""C16 - metadata: attribute routing and propagation rules.

ROUTING (E2, explicit-state search over attribute-access histories on DimArray / Dataset / Axis)
  state     attrs dict + privately stored underscore attributes + labels of the probed dimension (reference: RefObj)
  events    setattr / getattr / hasattr / delattr for public, underscore-prefixed, class-member and dimension names,
            attrs[name] = v, del attrs[name], attrs = {...}, del attrs
  rules     public non-member name      <-> attrs entry (get of a missing one: AttributeError)
            name equal to a dimension   <-> that axis' labels (never attrs)
            underscore / class-member   never enters attrs; an attrs entry stored under such a name is neither reachable
                                        (getattr gives the class member / AttributeError, never the entry) nor deletable
                                        through attribute syntax
PROPAGATION (E1)
  array metadata kept by indexing, reductions and other along-axis transforms, reshaping, reindexing, sorting, interpolation;
  axis metadata kept by slicing / indexing / reindexing that axis; arithmetic, comparisons, stack, concatenate return arrays
  WITHOUT the operands' metadata.
Not covered: assigning to method names (shadows the method; only "attrs unchanged" is checked), delattr of a dimension name.
"""
import itertools
import numpy as np
from mc import common, domains as D, ref as R
from mc.engine import ok, bad, unspecified
from mc.common import call, Raised, DimArray, Dataset, Axis, py, same_list

ID = "C16"
TITLE = "metadata routing and propagation"
RULE = ("routing: breadth-first search over histories of attribute events (see module docstring) on a DimArray, a Dataset and an "
        "Axis, de-duplicated on (attrs, private store, probed labels); every event's returned value / exception / attrs is compared "
        "with the rule table.  propagation: product of arrays carrying array- and axis-level metadata x every operation class named "
        "by the property (metadata also under the names of constructor arguments: cls, self, tol, dtype, name, values, ...).  non-trivial = the event touches attrs or a name of a special class (underscore, member, dimension)")
ASSUMPTIONS = ["RefObj rule table in mc/props/c16.py transcribes the statement"]

VALS = ["v0", 7, ["m", 1], None, 0, ""]      # values of several types, including None and falsy ones
NAMES = {
    "DimArray": {"public": ["units", "long_name"], "under": ["_priv", "__dd"], "dim": ["x"],
                 "member_ro": ["shape", "T", "ndim"], "member_rw": ["values", "attrs"], "method": ["mean", "take"]},
    "Dataset": {"public": ["units", "title"], "under": ["_priv"], "dim": ["x"],
                "member_ro": ["ndim"], "member_rw": ["attrs"], "method": ["keys", "mean"]},
    "Axis": {"public": ["units", "long_name"], "under": ["_priv"], "dim": [],
             "member_ro": ["size", "dtype"], "member_rw": ["values", "name", "attrs"], "method": ["sort", "copy"]},
}
XL = [30, 10, 20]
# names that are class members of only some of the three classes: plain metadata on the others
CROSS = ["tol", "max", "update", "keys", "labels"]
for _cls, _typ in (("DimArray", DimArray), ("Dataset", Dataset), ("Axis", Axis)):
    for _nm in CROSS:
        NAMES[_cls]["method" if hasattr(_typ, _nm) else "public"].append(_nm)


for _cls in NAMES:
    # public, no class member (not in dir(cls), instances do not have it) - but hasattr(cls, 'mro') is True: it lives on the metaclass `type`
    NAMES[_cls]["public"].append("mro")


def _prime(cls):
    """touch every name of this class' alphabet on fresh objects of the OTHER two classes first (set, get, delete; failures ignored):
    what the library learns about a name on one class must not decide how another class routes it"""
    for other in sorted(NAMES):
        if other == cls:
            continue
        o = make(other)
        for name in all_names(cls):
            call(setattr, o, name, "P:" + name)
            call(getattr, o, name)
            call(delattr, o, name)


def bounds(tier):
    return {"routing_depth": 3 if tier == "quick" else 4, "classes": sorted(NAMES)}


def make(cls):
    if cls == "DimArray":
        return D.build_impl(D.spec(["x", "y"], [XL, ["b", "a"]], ["i", "O"], base=2))
    if cls == "Dataset":
        ds = Dataset()
        ds["v"] = D.build_impl(D.spec(["x", "y"], [XL, ["b", "a"]], ["i", "O"], base=2))
        ds["w"] = D.build_impl(D.spec(["x"], [XL], ["i"], base=3))
        return ds
    return Axis(np.array(XL), "x")


class RefObj(object):
    def __init__(self, cls):
        self.cls = cls
        self.A = {}
        self.priv = {}
        self.labels = list(XL)
        self.name = "x"

    def kind(self, name):
        n = NAMES[self.cls]
        for k in ("public", "under", "dim", "member_ro", "member_rw", "method"):
            if name in n[k]:
                return k
        raise KeyError(name)


def all_names(cls):
    n = NAMES[cls]
    return n["public"] + n["under"] + n["dim"] + n["member_ro"] + n["member_rw"] + n["method"]


def events_for(cls, ref, tier):
    n = NAMES[cls]
    ev = []
    for name in n["public"] + n["under"]:
        for vi in range(len(VALS) if name == n["public"][0] else 1):
            ev.append(["set", name, vi])
    for name in n["dim"]:
        ev.append(["setdim", name, 0])
        ev.append(["setdim", name, 1])
    for name in n["member_ro"][:1]:
        ev.append(["set", name, 0])
    if "values" in n["member_rw"]:
        ev.append(["setvalues"])
    if "name" in n["member_rw"]:
        ev.append(["setname", "w" if ref.name == "x" else "x"])
    for name in all_names(cls):
        ev.append(["get", name])
        ev.append(["has", name])
        if name not in n["dim"] and name not in ("values", "name"):
            ev.append(["del", name])
    for name in n["public"][:1] + n["under"][:1] + n["member_ro"][:1] + n["member_rw"][:1] + n["method"][:1] + n["dim"]:
        ev.append(["aset", name, 1])
    for name in sorted(ref.A):
        ev.append(["adel", name])
    ev.append(["areplace", {"units": "r0", "_priv": "r1"}])
    ev.append(["areplace_self"])         # obj.attrs = obj.attrs: replacing the metadata by itself changes nothing
    if cls == "Axis":
        ev.append(["set_copy"])          # Axis.set(attrs=..., inplace=False): the COPY gets the metadata, this axis keeps its own
    ev.append(["aclear"])
    return ev


DIMLABELS = [[31, 11, 21], [30, 10, 20]]


def marker(name, vi):
    v = VALS[vi]
    return v if not isinstance(v, list) else list(v)


def apply_impl(obj, ev):
    k = ev[0]
    if k == "set":
        setattr(obj, ev[1], marker(ev[1], ev[2])); return None
    if k == "setdim":
        setattr(obj, ev[1], list(DIMLABELS[ev[2]])); return None
    if k == "setvalues":
        obj.values = np.asarray(obj.values) * 1 if not isinstance(obj, Axis) else np.array(py(obj.values))
        return None
    if k == "setname":
        obj.name = ev[1]; return None
    if k == "get":
        return getattr(obj, ev[1])
    if k == "has":
        return hasattr(obj, ev[1])
    if k == "del":
        delattr(obj, ev[1]); return None
    if k == "aset":
        obj.attrs[ev[1]] = "A:" + ev[1]; return None
    if k == "adel":
        del obj.attrs[ev[1]]; return None
    if k == "areplace":
        obj.attrs = dict(ev[1]); return None
    if k == "areplace_self":
        obj.attrs = obj.attrs; return None
    if k == "set_copy":
        return dict(obj.set(attrs={"k_": 1}, inplace=False).attrs)
    if k == "aclear":
        del obj.attrs; return None
    raise ValueError(ev)


def apply_ref(ref, ev):
    """-> expected outcome: ('none',) | ('value', v) | ('labels', l) | ('raises', AttributeError) | ('member',) | ('bool', b) | ('any',)"""
    k = ev[0]
    if k in ("set", "get", "has", "del"):
        kind = ref.kind(ev[1])
    if k == "set":
        name, v = ev[1], marker(ev[1], ev[2])
        if kind == "public":
            ref.A[name] = v
            return ("none",)
        if kind == "under":
            ref.priv[name] = v
            return ("none",)
        if kind == "member_ro":
            return ("raises", AttributeError)
        return ("any",)
    if k == "setdim":
        ref.labels = list(DIMLABELS[ev[2]])
        return ("none",)
    if k == "setvalues":
        return ("none",)
    if k == "setname":
        ref.name = ev[1]
        return ("none",)
    if k == "get":
        name = ev[1]
        if kind == "public":
            return ("value", ref.A[name]) if name in ref.A else ("raises", AttributeError)
        if kind == "under":
            return ("value", ref.priv[name]) if name in ref.priv else ("raises", AttributeError)
        if kind == "dim":
            return ("labels", ref.labels)
        return ("member",)
    if k == "has":
        name = ev[1]
        if kind == "public":
            return ("bool", name in ref.A)
        if kind == "under":
            return ("bool", name in ref.priv)
        return ("bool", True)
    if k == "del":
        name = ev[1]
        if kind == "public":
            if name in ref.A:
                del ref.A[name]
                return ("none",)
            return ("raises", AttributeError)
        if kind == "under":
            if name in ref.priv:
                del ref.priv[name]
                return ("none",)
            return ("raises", AttributeError)
        if name == "attrs":
            ref.A = {}
            return ("none",)
        return ("any-no-attrs-change",)    # class member: whatever happens, the attrs entry must survive
    if k == "aset":
        ref.A[ev[1]] = "A:" + ev[1]
        return ("none",)
    if k == "adel":
        del ref.A[ev[1]]
        return ("none",)
    if k == "areplace":
        ref.A = dict(ev[1])
        return ("none",)
    if k == "areplace_self":
        return ("none",)
    if k == "set_copy":
        return ("value", {"k_": 1})
    if k == "aclear":
        ref.A = {}
        return ("none",)
    raise ValueError(ev)


def obj_labels(obj, ref):
    if isinstance(obj, Axis):
        return py(obj.values)
    return py(obj.axes[0].values)


def canon_obj(obj, ref):
    priv = tuple(sorted((k, common.freeze(v)) for k, v in obj.__dict__.items() if k in NAMES[ref.cls]["under"]))
    # the NAMES of everything stored on the instance are part of the state: a de-duplication that looked at attrs only would merge a state in
    # which the library keeps something extra on the object (a remembered value) with the state without it
    return common.digest((common.freeze(dict(obj.attrs)), priv, tuple(obj_labels(obj, ref)), getattr(obj, "name", None) if isinstance(obj, Axis) else None,
                          tuple(sorted(k for k in obj.__dict__ if isinstance(k, str)))))


class Space(object):
    def __init__(self, cls):
        self.cls = cls

    def initial(self, tier):
        return [[["new", self.cls]], [["new", self.cls, "primed"]]]

    def _ref(self, hist):
        ref = RefObj(self.cls)
        for ev in hist[1:]:
            apply_ref(ref, ev)
        return ref

    def events(self, hist, tier):
        return events_for(self.cls, self._ref(hist), tier)

    def run(self, hist):
        if len(hist[0]) > 2:
            _prime(self.cls)
        obj = make(self.cls)
        ref = RefObj(self.cls)
        special = False
        for n, ev in enumerate(hist[1:]):
            last = n == len(hist) - 2
            exp = apply_ref(ref, ev)
            got = call(apply_impl, obj, ev)
            if last:
                what = "{} event {} after {}".format(self.cls, ev, hist[1:-1])
                if exp[0] == "raises":
                    if not (isinstance(got, Raised) and issubclass(got.cls, exp[1])):
                        return bad("{}: expected {}, got {}".format(what, exp[1].__name__, common.describe(got)))
                elif exp[0] in ("any", "any-no-attrs-change"):
                    pass
                elif isinstance(got, Raised):
                    return bad("{}: raised {}".format(what, got), klass="unexpected-exception")
                elif exp[0] == "value":
                    if common.freeze(got) != common.freeze(exp[1]):
                        return bad("{}: returned {!r} expected {!r}".format(what, got, exp[1]))
                elif exp[0] == "labels":
                    if not same_list(py(got), exp[1]):
                        return bad("{}: returned {!r} expected the axis labels {}".format(what, py(got), exp[1]))
                elif exp[0] == "bool":
                    if got is not exp[1]:
                        return bad("{}: hasattr gave {!r} expected {!r}".format(what, got, exp[1]))
                elif exp[0] == "member":
                    if isinstance(got, str) and got == "A:" + ev[1]:
                        return bad("{}: attribute access returned the attrs entry stored under a class-member name".format(what))
                special = ev[0] in ("aset", "adel", "areplace", "aclear", "set", "del", "setdim") or ref.kind(ev[1]) != "public" if len(ev) > 1 and ev[0] in ("get", "has") else True
        if common.freeze(dict(obj.attrs)) != common.freeze(ref.A):
            return bad("{} after {}: attrs {} expected {}".format(self.cls, hist[1:], dict(obj.attrs), ref.A))
        if not same_list(obj_labels(obj, ref), ref.labels):
            return bad("{} after {}: labels {} expected {}".format(self.cls, hist[1:], obj_labels(obj, ref), ref.labels))
        if self.cls == "Dataset":
            for k in obj.keys():
                if dict.__getitem__(obj, k).axes["x"] is not obj.axes["x"]:
                    return bad("Dataset after {}: variable {} no longer shares axis x".format(hist[1:], k))
        state = canon_obj(obj, ref) + ("P" if len(hist[0]) > 2 else "")      # taken BEFORE the probing reads below (they may themselves leave traces)
        # read every public name back through attribute syntax: it must show what attrs holds NOW (no value remembered from an earlier read)
        for name in NAMES[self.cls]["public"]:
            got = call(getattr, obj, name)
            if name in ref.A:
                if isinstance(got, Raised) or common.freeze(got) != common.freeze(ref.A[name]):
                    return bad("{} after {}: obj.{} reads {} but attrs[{!r}] is {!r}".format(self.cls, hist[1:], name, common.describe(got), name, ref.A[name]))
            elif not (isinstance(got, Raised) and issubclass(got.cls, AttributeError)):
                return bad("{} after {}: obj.{} reads {} although attrs has no such entry (AttributeError expected)".format(
                    self.cls, hist[1:], name, common.describe(got)))
        return ok(hist[-1][0], special, canon=state)


SPACES = {"DimArray": Space("DimArray"), "Dataset": Space("Dataset"), "Axis": Space("Axis")}


def bfs(tier, ctx):
    for name in sorted(SPACES):
        ctx.bfs(name, bounds(tier)["routing_depth"], time_cap=300 if tier == "quick" else 900)


# ------------------------------------------------------------------------------------------
# propagation (E1)
# ------------------------------------------------------------------------------------------
# array metadata under every class of name: public, underscore-prefixed, class member / constructor argument, dimension name
AATTRS = {"long": "L", "hist": [1, 2], "_FillValue": -9, "values": "meta-values", "dtype": "f4", "axes": "meta-axes", "x": "meta-x", "copy": True,
          "cls": "C", "self": "me", "dims": "meta-dims", "labels": "meta-labels", "args": [1], "metadata": {"k": 1}}
# (axis metadata under the names of the Axis constructor's own parameters included)
XATTRS = {"units": "m", "std": ["q"], "self": 1, "dtype": "f4", "tol": "t", "values": "V", "name": "N", "kwargs": 2}
YATTRS = {"units": "s"}


def _base(sing=False):
    s = D.spec(["x", "y"], [XL if not sing else [30], ["b", "a"]], ["i", "O"], base=2, attrs=AATTRS, axattrs={"x": XATTRS, "y": YATTRS})
    return s


def _with_attrs(b, a):
    b.attrs.update(a.attrs)      # (the harness builds this array itself, around the sliced Axis whose metadata is the subject)
    return b


def _other_axis(labels):
    ax = Axis(np.array(labels), "x")
    ax.attrs["units"] = "km"
    ax.attrs["positive"] = None
    return ax


KEEP_OPS = {   # name -> (callable on a, axes whose attrs must survive or None)
    "idx_scalar": (lambda a: a[10], ["y"]), "idx_list": (lambda a: a[[10, 20]], ["x", "y"]), "idx_mask": (lambda a: a[np.array([True, False, True])], ["x", "y"]),
    "idx_slice": (lambda a: a[30:10], ["x", "y"]), "idx_pos": (lambda a: a.ix[0:2], ["x", "y"]), "idx_take": (lambda a: a.take({"y": ["a"]}), ["x", "y"]),
    # the array as a Dataset variable, indexed / reduced down to 0-d (where a bare DimArray would give a scalar, the Dataset keeps an array)
    "ds_idx_collapse": (lambda a: Dataset(v=a).take(indices={"x": 10, "y": "a"})["v"], None),
    "ds_loc_collapse": (lambda a: Dataset(v=a[:, "a"], w=a).loc[10]["v"], None),
    "ds_mean_collapse": (lambda a: Dataset(v=a[:, "a"], w=a).mean(axis="x")["v"], None),
    "ds_sum_collapse": (lambda a: Dataset(v=a[:, "a"]).sum(axis="x")["v"], None),
    "to_dataset_1d": (lambda a: a[:, "a"].to_dataset(axis="x")[10], None), "to_dataset_2d": (lambda a: a.to_dataset(axis="x")[10], ["y"]),
    "axis_empty_list": (lambda a: _with_attrs(DimArray(a.values[:0], axes=[a.axes["x"][[]], a.axes["y"]]), a), ["x", "y"]),
    "idx_2d": (lambda a: a[[20, 30], "a"], ["x"]), "idx_bcast": (lambda a: a.take(([10, 30], "a"), broadcast=True), ["x"]),
    "idx_bcast_mask": (lambda a: a.take((np.array([True, False, True]), "b"), broadcast=True), ["x"]), "take_axis": (lambda a: a.take_axis([10, 30], axis="x"), ["x", "y"]),
    "sum": (lambda a: a.sum(axis="x"), None), "mean": (lambda a: a.mean(axis=1), None), "median": (lambda a: a.median(axis="y"), None),
    "std": (lambda a: a.std(axis="x", skipna=True), None),
    "cumsum": (lambda a: a.cumsum(axis="x"), None), "cumprod": (lambda a: a.cumprod(), None), "diff": (lambda a: a.diff(axis="x"), None),
    "diff_keep": (lambda a: a.diff(axis="y", keepaxis=True), None),
    "transpose": (lambda a: a.T, ["x", "y"]), "swapaxes": (lambda a: a.swapaxes(0, 1), ["x", "y"]), "rollaxis": (lambda a: a.rollaxis("y"), ["x", "y"]),
    "newaxis": (lambda a: a.newaxis("n", pos=1), ["x", "y"]), "flatten": (lambda a: a.flatten(), None), "unflatten": (lambda a: a.flatten().unflatten(), None),
    "reshape": (lambda a: a.reshape("y", "x", "k"), None), "reshape_group": (lambda a: a.reshape("y,x"), None),
    "broadcast": (lambda a: a.broadcast([Axis(np.array([1, 2]), "k")] + list(a.axes)), None),
    "reindex": (lambda a: a.reindex_axis([10, 15, 30], axis="x"), ["x", "y"]), "reindex_y": (lambda a: a.reindex_axis(["a", "z"], axis="y"), ["x", "y"]),
    # new labels of a type the axis' own type cannot hold (fractions on an integer axis), some of them missing: the axis is widened, its metadata stays
    "reindex_frac": (lambda a: a.reindex_axis([10, 12.5, 30], axis="x"), ["x", "y"]),
    "reindex_frac_arr": (lambda a: a.reindex_axis(np.array([12.5, 20.]), axis=0), ["x", "y"]),
    "reindex_frac_left": (lambda a: a.reindex_axis(np.array([12.5, 30.]), axis="x", method="left"), ["x", "y"]),
    "reindex_frac_axisobj": (lambda a: a.reindex_axis(_other_axis([10.5, 30.])), ["x", "y"]),
    # the target given as an Axis object that carries OTHER metadata (also what align() passes): the array's own axis metadata survives
    "reindex_axisobj": (lambda a: a.reindex_axis(_other_axis([10, 15, 30])), ["x", "y"]),
    "reindex_axisobj_present": (lambda a: a.reindex_axis(_other_axis([20, 10])), ["x", "y"]),
    "align_second": (lambda a: common.da.align([DimArray(np.zeros(2), axes=[_other_axis([20, 40])]), a])[1], ["x", "y"]),
    "align_first": (lambda a: common.da.align([a, DimArray(np.zeros(2), axes=[_other_axis([20, 40])])], join="inner")[0], ["x", "y"]),
    "reindex_like": (lambda a: a.reindex_like(DimArray(np.zeros(2), axes=[Axis(np.array([20, 40]), "x")])), ["y"]),
    "sort": (lambda a: a.sort_axis(axis="x"), ["y"]), "sort_y": (lambda a: a.sort_axis(axis=1), ["x"]),
    "interp": (lambda a: a.interp_axis([10, 15, 40], axis="x"), ["y"]), "interp_like": (lambda a: a.interp_like(DimArray(np.zeros(2), axes=[Axis(np.array([12.5, 20.]), "x")])), ["y"]),
}
KEEP_SING = {"squeeze": (lambda a: a.squeeze(), ["y"]), "squeeze_x": (lambda a: a.squeeze("x"), ["y"]), "repeat": (lambda a: a.repeat([1, 2], axis="x"), ["y"])}
DROP_OPS = {
    "add_self": lambda a, b: a + a, "add_other": lambda a, b: a + b, "mul_scalar": lambda a, b: a * 2, "rsub_scalar": lambda a, b: 2 - a,
    "div": lambda a, b: a / b, "pow": lambda a, b: a ** 2, "eq": lambda a, b: a == a, "eq_scalar": lambda a, b: a == 3, "lt": lambda a, b: a < 5,
    "ne": lambda a, b: a != a, "stack": lambda a, b: common.da.stack([a, a], axis="s"), "stack_align": lambda a, b: common.da.stack([a, b], axis="s", align=True),
    "concatenate": lambda a, b: common.da.concatenate([a, a], axis="x"), "concatenate_y": lambda a, b: common.da.concatenate([a, b], axis="y", align=True),
}


def shards(tier):
    return [{"part": "keep"}, {"part": "drop"}]


def cases(sh, tier):
    if sh["part"] == "keep":
        for var in D.VARIANTS:
            for name in KEEP_OPS:
                yield {"prop": "keep", "op": name, "var": var}
            for name in KEEP_SING:
                yield {"prop": "keepsing", "op": name, "var": var}
    else:
        for var in D.VARIANTS:
            for name in DROP_OPS:
                yield {"prop": "drop", "op": name, "var": var}


def state_key(case):
    return case.get("var") or case.get("hist", [[0]])[:1]


def check(case):
    sing = case["prop"] == "keepsing"
    s = dict(_base(sing), var=case["var"])
    a = D.build_impl(s)
    before = common.snap(a)
    if case["prop"] in ("keep", "keepsing"):
        fn, axkeep = (KEEP_SING if sing else KEEP_OPS)[case["op"]]
        got = call(fn, a)
        if common.snap(a) != before:
            return bad("operation {} modified its operand".format(case["op"]))
        if isinstance(got, Raised):
            return bad("operation {} raised {}".format(case["op"], got), klass="unexpected-exception")
        if not isinstance(got, DimArray):
            return bad("operation {} returned {}".format(case["op"], common.describe(got)))
        if common.freeze(dict(got.attrs)) != common.freeze(AATTRS):
            return bad("operation {}: array metadata {} expected {} to be carried over".format(case["op"], dict(got.attrs), AATTRS))
        for d in (axkeep or []):
            if d in got.dims:
                want = XATTRS if d == "x" else YATTRS
                if common.freeze(dict(got.axes[d].attrs)) != common.freeze(want):
                    return bad("operation {}: metadata of axis {} is {} expected {}".format(case["op"], d, dict(got.axes[d].attrs), want))
        return ok("kept")
    b = D.build_impl(dict(_base(), base=5, attrs={"other": 1}))
    got = call(DROP_OPS[case["op"]], a, b)
    if common.snap(a) != before:
        return bad("operation {} modified its operand".format(case["op"]))
    if isinstance(got, Raised):
        return bad("operation {} raised {}".format(case["op"], got), klass="unexpected-exception")
    if not isinstance(got, DimArray):
        return bad("operation {} returned {}".format(case["op"], common.describe(got)))
    if dict(got.attrs):
        return bad("operation {}: result carries metadata {} (arithmetic / comparison / stack / concatenate must not)".format(case["op"], dict(got.attrs)))
    return ok("dropped")


def snippet(case):
    if "hist" in case:
        return "from mc.props import c16\nprint(c16.SPACES[{!r}].run({!r}))".format(case["space"], case["hist"])
    return "from mc.props import c16\nprint(c16.check({!r}))".format(case)


def triage_sig(case, detail, klass):
    import re
    return (klass, case.get("prop"), case.get("op"), re.sub(r"[-0-9.]+", "#", detail)[:100])


CLASSIFIERS = {}
