"""C02 - label slices are inclusive bounding boxes; position slices stay NumPy-like.

clause -> observable -> oracle
  monotonic numeric axis: a[lo:hi:st] selects labels between the bounds, inclusive, axis order /
      reversed for negative step, every |st|-th   -> labels+values of the result -> ref.locate_slice (bbox)
  non-numeric / non-monotonic axis: bounds must exist, first..second inclusive, open bound = end,
      empty range -> empty, absent bound -> IndexError                          -> ref.locate_slice (strict)
  position slices keep NumPy's meaning                                          -> np.arange(n)[i:j:k]
  in any dimension of an N-d array, combined with other index kinds             -> embedded variants
Not covered: step == 0, non-numeric bounds on numeric axes, duplicate labels.
Ambiguity resolved towards silence: on axes of length 0/1 the direction (increasing/decreasing)
is undefined, so either reading of "between the bounds" is accepted.
"""
import itertools
from mc import common, domains as D, ref as R, spell
from mc.engine import ok, bad, unspecified
from mc.common import call, Raised, DimArray

ID = "C02"
OEO = True      # a third of the cases get a second pass on the same array after an in-place edit (engine._oeo)
TITLE = "label slices inclusive, position slices NumPy-like"
RULE = ("product of (axis label vector: monotonic int/float both directions len 0..N, every non-monotonic "
        "permutation, str axes in every order) x (start, stop in None/below/labels/midpoints/above or labels+absent) "
        "x step in {None,1,2,3,-1,-2} x spelling, 1-D and embedded at every position of 2-D/3-D arrays next to "
        "another index kind; non-trivial = slice is not the full slice (every generated case); distinct = "
        "distinct (array, index, spelling) descriptors")
ASSUMPTIONS = ["reference model mc/ref.py:locate_slice encodes the statement's two rules",
               "np.arange(n)[i:j:k] is the oracle for position slices (named by the property)",
               "labels unique within an axis; bounds numeric on numeric axes; step != 0"]
STEPS = [None, 1, 2, 3, -1, -2]


def bounds(tier):
    return {"max_len_monotonic": 4 if tier == "quick" else 5,
            "nonmonotonic_perm_lengths": [3] if tier == "quick" else [3, 4],
            "str_perm_lengths": [0, 1, 2, 3] if tier == "quick" else [0, 1, 2, 3, 4],
            "steps": STEPS, "embedded_ndim": [2, 3]}


def _cands(labels, kind, monotonic):
    if kind == "O" or not monotonic:
        return [None] + list(labels) + [D.ABSENT_BETWEEN[kind]]
    s = sorted(labels)
    if not s:
        return [None, D.BASE[kind][0], D.BASE[kind][1]]
    step = 5 if kind == "i" else 0.5
    eps = 0.5 if kind == "i" else 0.125     # fractional bounds hugging a label from either side
    out = [None, s[0] - step]
    for i, l in enumerate(s):
        out.extend([l - eps, l, l + eps])
        if i + 1 < len(s):
            out.append(l + step)
    out.append(s[-1] + step)
    return out


def axis_family(tier):
    b = bounds(tier)
    fam = []
    for kind in "if":
        for n in range(0, b["max_len_monotonic"] + 1):
            fam.append((kind, D.labels_of(kind, n, "inc"), True))
            if n >= 2:
                fam.append((kind, D.labels_of(kind, n, "dec"), True))
        for n in b["nonmonotonic_perm_lengths"]:
            for perm in D.all_orders(n):
                lab = D.labels_of(kind, n, perm)
                if R.monotonic_dir(lab) == 0:
                    fam.append((kind, lab, False))
    for n in b["str_perm_lengths"]:
        for perm in D.all_orders(n):
            fam.append(("O", D.labels_of("O", n, perm), False))
    return fam


OTHER = {  # other index kinds combined in the same tuple (on a 3-label int axis [30,10,20])
    "full": ["full"], "scalar": ["s", 10], "list": ["l", [20, 30]], "mask": ["m", [True, False, True]],
    "slice": ["sl", 10, None, None]}
OTHER_LABELS = [30, 10, 20]


def shards(tier):
    out = []
    fam = axis_family(tier)
    for k, (kind, lab, mono) in enumerate(fam):
        out.append({"kind": kind, "labels": lab, "mono": mono, "embed": None, "var": D.VARIANTS[k % len(D.VARIANTS)]})
    # narrow / unsigned label types on monotonic integer axes (negating or subtracting such labels wraps around)
    for ldt in ("uint8", "uint64", "int8"):
        for order in ("inc", "dec"):
            out.append({"kind": "i", "labels": D.labels_of("i", 3, order), "mono": True, "embed": None, "var": "fresh", "ldt": ldt})
    # embedded: slice axis at every position of 2-D / 3-D arrays
    emb_axes = [f for f in fam if len(f[1]) in ((2, 3) if tier == "quick" else (2, 3, 4))]
    if tier == "quick":
        emb_axes = emb_axes[::3]
    j = 0
    for kind, lab, mono in emb_axes:
        for nd in (2, 3):
            for p in range(nd):
                j += 1
                out.append({"kind": kind, "labels": lab, "mono": mono, "embed": [nd, p],
                            "var": D.VARIANTS[j % len(D.VARIANTS)]})
    return out


def _spec(sh):
    kind, lab = sh["kind"], sh["labels"]
    if sh["embed"] is None:
        if sh.get("ldt"):
            return dict(D.spec(["x"], [lab], [kind]), ldt=[sh["ldt"]])
        return D.spec(["x"], [lab], [kind], var=sh["var"] if len(lab) else "fresh")
    nd, p = sh["embed"]
    names = ["x", "y", "z"][:nd]
    labels, kinds = [], []
    for i in range(nd):
        if i == p:
            labels.append(lab); kinds.append(kind)
        else:
            labels.append(OTHER_LABELS); kinds.append("i")
    return D.spec(names, labels, kinds, var=sh["var"])


def cases(sh, tier):
    s = _spec(sh)
    kind, lab = sh["kind"], sh["labels"]
    n = len(lab)
    cands = _cands(lab, kind, sh["mono"])
    if sh["embed"] is None:
        p, nd = 0, 1
        others = [()]
        spellings = ["getitem", "take", "dictn", "axisn", "axisp", "loc", "sel"]
    else:
        nd, p = sh["embed"]
        keys = ["full", "scalar", "list", "mask", "slice"]
        others = [tuple(c) for c in itertools.product(keys, repeat=nd - 1)]
        if tier == "quick":
            others = others[::2]
        spellings = ["getitem", "dictn"] if tier == "quick" else ["getitem", "dictn", "loc", "dicti"]
        if tier == "quick":
            cands = cands[::2] if len(cands) > 6 else cands
    for oth in others:
        for start in cands:
            for stop in cands:
                for step in STEPS:
                    if start is None and stop is None and step is None:
                        continue
                    ixs, o = [], list(oth)
                    for i in range(nd):
                        ixs.append(["sl", start, stop, step] if i == p else OTHER[o.pop(0)])
                    for sp in spellings:
                        if spell.applicable(sp, ixs, nd):
                            yield {"a": s, "ix": ixs, "sp": sp, "mode": "label"}
    # position slices
    rng = [None] + list(range(-n - 1, n + 2))
    if sh["embed"] is not None:
        rng = [None, -n - 1, -1, 0, 1, n, n + 1]
    for i in rng:
        for j in rng:
            for step in STEPS:
                ixs = [["sl", i, j, step] if q == p else ["full"] for q in range(nd)]
                for sp in (["ix", "iloc", "takepos", "axispos"] if sh["embed"] is None else ["ix", "dictpos"]):
                    yield {"a": s, "ix": ixs, "sp": sp, "mode": "position"}


def state_key(case):
    return case["a"]


def check(case):
    s = case["a"]
    ra = D.build_ref(s)
    a = D.build_impl(s)
    before = common.snap(a)
    try:
        alts = R.resolve_all(ra, s["kinds"], case["ix"], mode=case["mode"])
        expect = [R.select(ra, pd) for pd in alts]
    except R.RefRaises as e:
        expect = e
    except R.Unspecified:
        call(spell.get, a, case["ix"], case["sp"], s["kinds"], mode=case["mode"])
        return unspecified()
    got = call(spell.get, a, case["ix"], case["sp"], s["kinds"], mode=case["mode"])
    if common.snap(a) != before:
        return bad("operand modified by a slice read")
    if isinstance(expect, R.RefRaises):
        if isinstance(got, Raised) and issubclass(got.cls, expect.cls):
            return ok("raises-" + expect.cls.__name__)
        return bad("expected {} ({}), got {}".format(expect.cls.__name__, expect.why, common.describe(got)))
    if isinstance(got, Raised):
        return bad("expected {}, but raised {}".format(expect[0], got), klass="unexpected-exception")
    m = D.compare_alts(got, expect)
    if m:
        return bad(m)
    e0 = expect[0]
    empty = isinstance(e0, R.RA) and 0 in e0.shape
    return ok("empty" if empty else "value")


def snippet(case):
    s = case["a"]
    return ("import numpy as np, dimarray as da\n"
            "from mc import domains as D, spell\n"
            "a = D.build_impl({!r})\n"
            "print(spell.get(a, {!r}, {!r}, {!r}))").format(s, case["ix"], case["sp"], s["kinds"])


def _sl(case):
    for ix in case["ix"]:
        if ix[0] == "sl" and case.get("mode") == "label":
            return ix
    return None


CLASSIFIERS = {}


def triage_sig(case, detail, klass):
    s = case["a"]
    sl = _sl(case)
    if sl is None:
        return (klass, "position", detail[:40])
    p = [i for i, ix in enumerate(case["ix"]) if ix[0] == "sl"][0]
    lab = s["labels"][p]
    mono = R.monotonic_dir(lab)
    return (klass, "kind=" + s["kinds"][p], "mono=%s" % mono, "n=%d" % len(lab) if len(lab) < 2 else "n>=2",
            "step<0" if (sl[3] or 1) < 0 else "step>0", "start=None" if sl[1] is None else "start", "stop=None" if sl[2] is None else "stop")
