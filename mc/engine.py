"""Exploration drivers, aggregation, evidence / replay / known-findings plumbing.

A property module (mc/props/cNN.py) provides

    ID, TITLE, RULE (str), ASSUMPTIONS (list of str)
    shards(tier)            -> list of JSON-able shard descriptors (the initial states, grouped)
    cases(shard, tier)      -> iterable of JSON-able case descriptors (state x transition [x spelling])
    check(case)             -> result dict built with ok(...) / bad(...)
    CLASSIFIERS             -> {name: predicate(case, detail)} used by known_findings.jsonl
  optionally
    bfs(tier, ctx)          -> explicit-state searches (E2); uses ctx.bfs(...)
    state_key(case)         -> hashable id of the initial state of an E1 case (default: case['a'])

Every case is executed on the implementation in lock-step with the reference model inside
check(); the engine only enumerates, distributes, aggregates and reports.
"""
import os, sys, json, time, hashlib, importlib, traceback, random, collections
from concurrent.futures import ProcessPoolExecutor

VERIF = os.path.dirname(os.path.dirname(os.path.abspath(__file__)))
_OUT = os.environ.get("VERIF_OUT") or VERIF     # runs against scratch copies (seeded changes) write elsewhere
REPLAYS = os.path.join(_OUT, "replays")
EVIDENCE = os.path.join(_OUT, "evidence")
KNOWN = os.path.join(VERIF, "known_findings.jsonl")
MAX_STORED = 12  # violations whose details are stored per shard (all are counted)


# ------------------------------------------------------------------------------------------
# result constructors used by property modules
# ------------------------------------------------------------------------------------------
def ok(klass="value", nontrivial=True, **extra):
    r = {"ok": True, "klass": klass, "nontrivial": nontrivial}
    r.update(extra)
    return r


def bad(detail, klass="mismatch", **extra):
    r = {"ok": False, "klass": klass, "nontrivial": True, "detail": detail}
    r.update(extra)
    return r


def unspecified(klass="unspecified"):
    return {"ok": True, "klass": klass, "nontrivial": False, "unspecified": True}


def jdump(x):
    return json.dumps(x, sort_keys=True, default=_jdefault)


def _jdefault(o):
    import numpy as np
    if isinstance(o, np.generic):
        return o.item()
    if isinstance(o, np.ndarray):
        return o.tolist()
    if isinstance(o, (set, frozenset)):
        return sorted(o)
    if isinstance(o, tuple):
        return list(o)
    return repr(o)


def digest8(s):
    return int.from_bytes(hashlib.md5(s.encode()).digest()[:8], "big")


# ------------------------------------------------------------------------------------------
# known findings
# ------------------------------------------------------------------------------------------
def load_known(prop_id):
    out = []
    if os.path.exists(KNOWN):
        for line in open(KNOWN):
            line = line.strip()
            if not line or line.startswith("#"):
                continue
            rec = json.loads(line)
            if rec.get("property") == prop_id and rec.get("status") == "known":
                out.append(rec)
    return out


def classify(mod, known, case, detail):
    for rec in known:
        pred = getattr(mod, "CLASSIFIERS", {}).get(rec["classifier"])
        if pred is None:
            continue
        try:
            if pred(case, detail):
                return rec["classifier"]
        except Exception:
            continue
    return None


# ------------------------------------------------------------------------------------------
# worker side
# ------------------------------------------------------------------------------------------
def _load(prop_id):
    return importlib.import_module("mc.props." + prop_id.lower())


class ShardStats(object):
    def __init__(self):
        self.evaluations = 0
        self.nontrivial = set()
        self.states = set()
        self.classes = collections.Counter()
        self.unspecified = 0
        self.violations = []      # stored (case, detail, klass)
        self.n_violations = 0
        self.known = collections.Counter()
        self.samples = []
        self.extra = collections.Counter()   # free-form counters (e.g. intermediates monitored)
        self.transitions = 0
        self.maxdepth = 0

    def pack(self):
        return {"evaluations": self.evaluations, "nontrivial": self.nontrivial, "states": self.states,
                "classes": dict(self.classes), "unspecified": self.unspecified,
                "violations": self.violations, "n_violations": self.n_violations,
                "known": dict(self.known), "samples": self.samples, "extra": dict(self.extra),
                "transitions": self.transitions, "maxdepth": self.maxdepth}


def _stride(case, n):
    import zlib
    return zlib.crc32(jdump(case).encode()) % n == 0


def _oeo(mod, case, how):
    """'operate - edit in place - operate again': second pass of a case (modules with OEO = True) on the SAME array object that the first
    pass built and used for case['a'], after it was edited in place through the public API (first two labels of every axis swapped / first
    cell assigned); the module's own check runs unchanged against the correspondingly edited reference.  -> result or None (not applicable)"""
    from mc import domains as _D, common as _C
    key = _D._key(case["a"])
    a = _D.LAST.get(key)
    if a is None:
        return None
    try:
        ra2 = _D.edit_in_place(a, _D.build_ref(case["a"]), case["a"], how)
    except Exception as e:
        return bad("in-place edit {} of the array after the first pass raised {}: {}".format(how, type(e).__name__, e), klass="unexpected-exception")
    if ra2 is None:
        return None
    _D.RECORD = False
    _D.REUSE = {key: (a, ra2)}
    try:
        r2 = mod.check(case)
    finally:
        _D.REUSE = {}
    if not r2["ok"]:
        return bad("second pass on the same array after the in-place edit '{}' (labels now {}): {}".format(how, list(ra2.labels), r2.get("detail", "")),
                   klass=r2.get("klass", "mismatch"))
    return r2


def safe_check(mod, case):
    from mc import domains as _D
    _D.VSHIFT = case.get("vshift", 0) if isinstance(case, dict) else 0
    from mc import common as _C
    try:
        if isinstance(case, dict) and case.get("after") is not None:
            try:
                mod.check(case["after"])        # the predecessor (see run_shard): only what it leaves behind matters
            except Exception:
                pass
        if isinstance(case, dict) and case.get("repeat"):
            # replay of a case whose FIRST run left dimarray's global options changed: the verdict is that of the second, identical run
            try:
                mod.check(case)
            except Exception:
                pass
            r = mod.check(case)
            if not r["ok"]:
                r = bad("second identical run of the case, the first one having left the global options {} : {}".format(
                    _C.leaked_options(), r.get("detail", "")), klass=r.get("klass", "mismatch"))
        elif isinstance(case, dict) and case.get("oeo"):
            # replay of a case whose verdict comes from the second pass (see _oeo)
            _D.RECORD, _D.LAST = True, {}
            try:
                mod.check(case)
            except Exception:
                pass
            r = _oeo(mod, case, case["oeo"]) or ok("oeo-n/a")
        else:
            eligible = getattr(mod, "OEO", False) and isinstance(case, dict) and isinstance(case.get("a"), dict)
            edits = ("swap_labels", "assign_cell") if getattr(mod, "OEO", False) is True else tuple(e for e in (getattr(mod, "OEO", ()) or ()) if e != "decoy")
            oeo = eligible and bool(edits) and _stride(case, 3)
            # decoy pre-pass: the same calls on a look-alike array first (same dims, sizes, end labels - other labels in between, other
            # values), result ignored: whatever the library remembers under a key coarser than the full content now belongs to the decoy
            if eligible and (case.get("decoy") or (not oeo and _stride(case, 4))):
                for ds_ in (_D.decoy_spec(case["a"]), _D.decoy_rotated(case["a"])):
                    if ds_ is not None:
                        case["decoy"] = True
                        try:
                            mod.check(dict(case, a=ds_))
                        except Exception:
                            pass
                        _C.reset_options()
            if oeo:
                _D.RECORD, _D.LAST = True, {}
            r = mod.check(case)
            if oeo and r["ok"] and not r.get("unspecified"):
                how = "swap_labels" if _stride(case, 2) else "assign_cell"      # one edit per case (the array is edited for good)
                if how not in edits:     # a module may restrict the edits (arguments that embed labels)
                    how = edits[0]
                r2 = _oeo(mod, case, how)
                if r2 is not None and not r2["ok"]:
                    case["oeo"] = how
                    r = r2
                elif r2 is not None:
                    r = dict(r, extra=dict(r.get("extra") or {}, second_passes_after_in_place_edit=1))
            leak = _C.leaked_options()
            if r["ok"] and leak and isinstance(case, dict):
                # the calls of this case left global option state behind.  That is not itself what the properties forbid - a LATER call
                # misbehaving is: make the same calls once more, without resetting anything, and judge that second run
                r2 = mod.check(case)
                if not r2["ok"]:
                    case["repeat"] = 2
                    r = bad("second identical run of the case, the first one having left the global options {} : {}".format(
                        leak, r2.get("detail", "")), klass=r2.get("klass", "mismatch"))
    except Exception:
        r = bad("HARNESS-ERROR " + traceback.format_exc(limit=6), klass="harness-error")
    finally:
        _D.VSHIFT = 0
        _D.RECORD, _D.LAST, _D.REUSE = False, {}, {}
        try:
            from mc import common
            common.reset_options()
        except Exception:
            pass
    return r


def account(mod, known, st, case, r, cj=None):
    cj = cj or jdump(case)
    st.evaluations += 1
    st.transitions += 1
    st.classes[r.get("klass", "value")] += 1
    if r.get("unspecified"):
        st.unspecified += 1
    if r.get("nontrivial"):
        st.nontrivial.add(digest8(cj))
    sk = getattr(mod, "state_key", None)
    st.states.add(digest8(jdump([sk(case) if sk else case.get("a", case), case.get("vshift", 0)])))
    for k, v in (r.get("extra") or {}).items():
        st.extra[k] += v
    if isinstance(case, dict):      # how many cases ran with which history device (see safe_check / run_shard)
        for k in ("after", "decoy", "oeo", "repeat", "vshift"):
            if case.get(k):
                st.extra["cases_with_" + k] += 1
    if not r["ok"]:
        cls = classify(mod, known, case, r.get("detail", ""))
        if cls:
            st.known[cls] += 1
        else:
            st.n_violations += 1
            if len(st.violations) < MAX_STORED:
                st.violations.append((case, r.get("detail", ""), r.get("klass", "mismatch")))
    elif len(st.samples) < 2 and r.get("nontrivial"):
        st.samples.append(case)


def run_shard(args):
    prop_id, shard, tier = args
    mod = _load(prop_id)
    known = load_known(prop_id)
    st = ShardStats()
    try:
        vs = shard.get("vshift") if isinstance(shard, dict) else None
        prev = None
        for case in mod.cases(shard, tier):
            if vs:
                case = dict(case, vshift=vs)
            # chaining: every fifth case is preceded, inside the same execution, by its predecessor in the enumeration (result ignored):
            # state that a call leaves in the PROCESS (module-level caches, mutable default arguments, class attributes) then meets the
            # next, unrelated call deterministically, and the replay file carries the predecessor along
            if prev is not None and getattr(mod, "CHAIN", True) and isinstance(case, dict) and _stride(case, 5):
                case = dict(case, after=prev)
            r = safe_check(mod, case)
            account(mod, known, st, case, r)
            prev = dict((k, v) for k, v in case.items() if k not in ("after", "repeat", "oeo", "decoy")) if isinstance(case, dict) else None
    except Exception:
        st.n_violations += 1
        st.violations.append(({"shard": shard}, "HARNESS-ERROR in case generator " + traceback.format_exc(limit=6), "harness-error"))
    return st.pack()


# ------------------------------------------------------------------------------------------
# E2: explicit-state breadth-first search over histories (level-synchronous, parallel)
# ------------------------------------------------------------------------------------------
def _bfs_expand(args):
    """worker: expand a chunk of frontier histories by every enabled event"""
    prop_id, space, tier, chunk = args
    mod = _load(prop_id)
    known = load_known(prop_id)
    sp = mod.SPACES[space]
    st = ShardStats()
    succ = []
    for hist in chunk:
        try:
            events = sp.events(hist, tier)
        except Exception:
            st.n_violations += 1
            st.violations.append(({"space": space, "hist": hist}, "HARNESS-ERROR in events() " + traceback.format_exc(limit=6), "harness-error"))
            continue
        for ev in events:
            case = {"space": space, "hist": hist + [ev]}
            try:
                r = sp.run(hist + [ev])   # replays hist+[ev] on fresh objects in lock-step, checks last step
                from mc import common as _C
                leak = _C.leaked_options()
                if r["ok"] and leak:      # see safe_check: global option state left behind -> the same history once more, not reset
                    r2 = sp.run(hist + [ev])
                    if not r2["ok"]:
                        r = bad("second identical run of the history, the first one having left the global options {} : {}".format(
                            leak, r2.get("detail", "")), klass=r2.get("klass", "mismatch"))
                        case["repeat"] = 2
            except Exception:
                r = bad("HARNESS-ERROR " + traceback.format_exc(limit=8), klass="harness-error")
            finally:
                from mc import common
                common.reset_options()
            account(mod, known, st, case, r)
            st.maxdepth = max(st.maxdepth, len(hist) + 1)
            if r["ok"] and r.get("canon") is not None and not r.get("terminal"):
                succ.append((r["canon"], hist + [ev]))
    return st.pack(), succ


class Context(object):
    """parent-side aggregation"""
    def __init__(self, mod, tier, seed, jobs):
        self.mod, self.tier, self.seed, self.jobs = mod, tier, seed, jobs
        self.evaluations = 0
        self.nontrivial = set()
        self.states = set()
        self.classes = collections.Counter()
        self.unspecified = 0
        self.violations = []
        self.n_violations = 0
        self.known = collections.Counter()
        self.samples = []
        self.extra = collections.Counter()
        self.transitions = 0
        self.bfs_info = []
        self.caps = []
        self.pool = None

    def merge(self, p):
        self.evaluations += p["evaluations"]
        self.nontrivial |= p["nontrivial"]
        self.states |= p["states"]
        self.classes.update(p["classes"])
        self.unspecified += p["unspecified"]
        self.n_violations += p["n_violations"]
        for v in p["violations"]:
            if len(self.violations) < 40:
                self.violations.append(v)
        self.known.update(p["known"])
        for s in p["samples"]:
            if len(self.samples) < 6:
                self.samples.append(s)
        self.extra.update(p["extra"])
        self.transitions += p["transitions"]

    def sweep(self, shards):
        if self.tier == "thorough" and getattr(self.mod, "VARIANT_SWEEP", False):
            from mc import domains as _D
            shards = [dict(sh, vshift=k) if k else sh for k in range(len(_D.VARIANTS) - 1) for sh in shards]
            self.variant_sweep = True
        order = list(range(len(shards)))
        random.Random(self.seed).shuffle(order)  # VERIF_SEED only permutes the shard order
        args = [(self.mod.ID, shards[i], self.tier) for i in order]
        if self.jobs <= 1:
            for a in args:
                self.merge(run_shard(a))
        else:
            cs = max(1, len(args) // (self.jobs * 8))
            for p in self.pool.map(run_shard, args, chunksize=cs):
                self.merge(p)

    def bfs(self, space, max_depth, time_cap=None):
        """breadth-first search of mod.SPACES[space]; states = canonical forms of replayed histories"""
        sp = self.mod.SPACES[space]
        t0 = time.time()
        seen = {}
        frontier = []
        for hist in sp.initial(self.tier):
            r = sp.run(hist)
            if not r["ok"]:
                self.n_violations += 1
                self.violations.append(({"space": space, "hist": hist}, r.get("detail", ""), r.get("klass")))
                continue
            if r["canon"] not in seen:
                seen[r["canon"]] = hist
                frontier.append(hist)
        completed = 0
        trans0 = self.transitions
        capped = False
        per_state = None        # transitions per expanded state, measured on the previous level
        per_trans = None        # seconds per transition, measured on the previous level
        for depth in range(1, max_depth + 1):
            if not frontier:
                break
            if time_cap and per_state is not None:
                # a level is never interrupted (its coverage statement would be unclear): it is only started when the estimate of its cost
                # - frontier x transitions per state x seconds per transition, both measured on the previous level - fits the time budget
                est = len(frontier) * per_state * per_trans
                if (time.time() - t0) + est > time_cap:
                    capped = True
                    self.caps.append("space {}: depth {} not started (estimated {:.0f}s for {} frontier states, time budget {}s); complete to depth {}".format(
                        space, depth, est, len(frontier), time_cap, completed))
                    break
            t_level, tr_level, n_front = time.time(), self.transitions, len(frontier)
            random.Random(self.seed + depth).shuffle(frontier)
            n = max(1, min(len(frontier), self.jobs * 6))
            chunks = [frontier[i::n] for i in range(n)]
            args = [(self.mod.ID, space, self.tier, c) for c in chunks]
            results = self.pool.map(_bfs_expand, args) if self.jobs > 1 else map(_bfs_expand, args)
            nxt = []
            allsucc = []
            for p, succ in results:
                self.merge(p)
                allsucc.extend(succ)
            allsucc.sort(key=lambda t: (len(t[1]), jdump(t[1])))  # deterministic representative
            for canon, hist in allsucc:
                if canon not in seen:
                    seen[canon] = hist
                    nxt.append(hist)
            frontier = nxt
            completed = depth
            dtr = max(1, self.transitions - tr_level)
            per_state = dtr / float(max(1, n_front))
            per_trans = (time.time() - t_level) / float(dtr)
        for c in seen:
            self.states.add(digest8("bfs:%s:%s" % (space, c)))
        self.bfs_info.append({"space": space, "distinct_states": len(seen), "completed_depth": completed,
                              "requested_depth": max_depth, "transitions": self.transitions - trans0,
                              "frontier_left": len(frontier), "capped": capped,
                              "wall_s": round(time.time() - t0, 2)})
        return seen


# ------------------------------------------------------------------------------------------
# top level
# ------------------------------------------------------------------------------------------
def write_replay(prop_id, n, case, detail, klass):
    os.makedirs(REPLAYS, exist_ok=True)
    path = os.path.join(REPLAYS, "{}-{}.json".format(prop_id, n))
    mod = _load(prop_id)
    snippet = None
    if hasattr(mod, "snippet"):
        try:
            snippet = mod.snippet(case)
        except Exception:
            snippet = None
    with open(path, "w") as f:
        json.dump({"property": prop_id, "class": klass, "case": case, "detail": detail, "snippet": snippet,
                   "replay": "cd /verif && /venv/bin/python -m mc.check {} --replay {}".format(prop_id, path)},
                  f, indent=1, default=_jdefault)
    return path


def replay_case(mod, case):
    if "space" in case and hasattr(mod, "SPACES"):
        from mc import common as _C
        try:
            if case.get("repeat"):
                try:
                    mod.SPACES[case["space"]].run(case["hist"])     # the first run plants the option state
                except Exception:
                    pass
            return mod.SPACES[case["space"]].run(case["hist"])
        finally:
            _C.reset_options()
    return safe_check(mod, case)


def run_property(prop_id, tier="quick", seed=0, jobs=None):
    t0 = time.time()
    mod = _load(prop_id)
    jobs = jobs or int(os.environ.get("VERIF_JOBS", "0")) or min(16, os.cpu_count() or 1)
    ctx = Context(mod, tier, seed, jobs)
    known = load_known(prop_id)
    # remove stale replays of this property
    if os.path.isdir(REPLAYS):
        for fn in os.listdir(REPLAYS):
            if fn.startswith(prop_id + "-"):
                os.remove(os.path.join(REPLAYS, fn))
    # one scratch directory per run, owned by this parent process (worker processes of the pool do not run atexit handlers);
    # property modules that need files (C19, C20) create theirs below $VERIF_SCRATCH
    import tempfile, shutil
    scratch = tempfile.mkdtemp(prefix="verif-%s-" % prop_id)
    os.environ["VERIF_SCRATCH"] = scratch
    pool = ProcessPoolExecutor(max_workers=jobs) if jobs > 1 else None
    ctx.pool = pool
    try:
        if hasattr(mod, "shards"):
            ctx.sweep(mod.shards(tier))
        if hasattr(mod, "bfs"):
            mod.bfs(tier, ctx)
    finally:
        if pool:
            pool.shutdown()
        shutil.rmtree(scratch, True)
        scratch = tempfile.mkdtemp(prefix="verif-%s-" % prop_id)      # for the confirmation replays below
        os.environ["VERIF_SCRATCH"] = scratch
        import atexit
        atexit.register(shutil.rmtree, scratch, True)

    # confirm + report violations (each replayed once more in this fresh parent process)
    lines = []
    harness_errors = 0
    n_rep = 0
    for case, detail, klass in ctx.violations:
        if klass == "harness-error":
            harness_errors += 1
        else:
            r2 = replay_case(mod, case)
            if r2.get("ok"):
                harness_errors += 1
                detail = "NON-DETERMINISTIC (replay passed) :: " + detail
                klass = "harness-error"
        path = write_replay(prop_id, n_rep, case, detail, klass)
        n_rep += 1
        lines.append((klass, path, detail))
    for rec in known:
        n = ctx.known.get(rec["classifier"], 0)
        if n:
            print("KNOWN-FINDING: property={} {} [{} matching cases; classifier {}]".format(
                prop_id, rec["what"], n, rec["classifier"]))
    for klass, path, detail in lines:
        # exceptions escaping the harness itself (klass harness-error) are reported as violations too:
        # on the unchanged tree they never occur, on a modified tree they are a symptom of the change
        print("VIOLATION property={} replay={}".format(prop_id, path))
        print("    [{}] ".format(klass) + detail[:700].replace("\n", "\n    "))
    wall = time.time() - t0
    exhaustive = not ctx.caps
    cov = {
        "states": len(ctx.states),
        "transitions": ctx.transitions,
        "traces_validated_against_impl": ctx.transitions,
        "evaluations": ctx.evaluations,
        "distinct_nontrivial": len(ctx.nontrivial),
        "rule": getattr(mod, "RULE", ""),
        "samples": ctx.samples[:5] or [{"note": "no sample recorded"}],
        "exhaustive": exhaustive,
        "bounds": dict(mod.bounds(tier) if hasattr(mod, "bounds") else {},
                       state_variants=("every case on each of the non-fresh history variants of its array (T, slice, take, ds, mono, relabel, shallow, rslice)"
                                       if getattr(ctx, "variant_sweep", False) else "one history variant per array, chosen by its index")),
        "outcome_classes": dict(ctx.classes),
        "distinct_outcome_classes": len(ctx.classes),
        "unspecified_cases": ctx.unspecified,
        "caps_hit": ctx.caps,
        "known_finding_cases": dict(ctx.known),
        "extra_counters": dict(ctx.extra),
        "explanation": "every enumerated case was executed on the working-tree implementation in lock-step with "
                       "the reference model (conformance on every explored edge)",
        "repo": os.environ.get("DIMARRAY_VERIF_REPO", "/repo"),
        "jobs": jobs,
    }
    if ctx.bfs_info:
        cov["bfs"] = ctx.bfs_info
        cov["completed_depth"] = {b["space"]: b["completed_depth"] for b in ctx.bfs_info}
    ev = {"property_id": prop_id, "tier": tier, "seed": seed, "level": "model_checking", "coverage": cov,
          "assumptions": list(getattr(mod, "ASSUMPTIONS", [])), "wall_s": round(wall, 2),
          "violations": ctx.n_violations}
    os.makedirs(EVIDENCE, exist_ok=True)
    with open(os.path.join(EVIDENCE, prop_id + ".json"), "w") as f:
        json.dump(ev, f, indent=1, default=_jdefault)
    print("{} tier={} seed={} states={} transitions={} nontrivial={} classes={} unspecified={} "
          "violations={} known={} wall={:.1f}s{}".format(
              prop_id, tier, seed, len(ctx.states), ctx.transitions, len(ctx.nontrivial), dict(ctx.classes),
              ctx.unspecified, ctx.n_violations, sum(ctx.known.values()), wall,
              "" if exhaustive else " CAPS=" + "; ".join(ctx.caps)))
    for b in ctx.bfs_info:
        print("   bfs", b)
    return 1 if (ctx.n_violations or harness_errors) else 0
