"""setup / self-test: nothing needs building; verify the toolchain and the reference model's own sanity."""
import sys


def main():
    from mc import common, ref as R, domains as D
    import numpy as np
    print("python", sys.version.split()[0], "numpy", np.__version__, "dimarray from", common.da.__file__)
    # reference-model sanity (independent of dimarray)
    assert R.locate_slice([10, 20, 30], "i", 15, 30, None) == [[1, 2]]
    assert R.locate_slice([30, 20, 10], "i", 30, 15, None) == [[0, 1]]
    assert R.locate_slice([10, 20, 30], "i", 30, 15, -1) == [[2, 1]]
    assert R.locate_slice([10, 20, 30], "i", 5, None, -1) == [[]]
    assert R.locate_slice(["c", "a", "b"], "O", "b", "c", -1) == [[2, 1, 0]]
    s = D.spec(["x", "y"], [[10, 20], ["a", "b", "c"]], ["i", "O"])
    ra = D.build_ref(s)
    sub = R.select(ra, (("drop", 1), ("keep", [2, 0])))
    assert sub.dims == ("y",) and sub.labels == (["c", "a"],) and sub.vals.tolist() == [ra.vals[1, 2], ra.vals[1, 0]]
    a = D.build_impl(s)
    assert D.compare(a, ra) is None
    print("selftest ok")
    return 0


if __name__ == "__main__":
    sys.exit(main())
