"""Environment set-up, observation (snapshots) and comparison helpers shared by all checks.

Importing this module
  * puts the repository under test (DIMARRAY_VERIF_REPO, default /repo) first on sys.path,
  * puts the vendored netCDF4 stand-in on sys.path (netCDF4 is absent from the sandbox),
  * imports dimarray and asserts that it was loaded from the repository under test.
"""
import os, sys, math, warnings, hashlib, json, itertools

REPO = os.path.realpath(os.environ.get("DIMARRAY_VERIF_REPO", "/repo"))
HERE = os.path.dirname(os.path.abspath(__file__))
STANDIN = os.path.join(HERE, "standin")

os.environ.setdefault("DIMARRAY_VERIF", "1")  # harness-side guard only (no source hooks exist)
for p in (STANDIN, REPO):
    if p in sys.path:
        sys.path.remove(p)
    sys.path.insert(0, p)

warnings.simplefilter("ignore")
import numpy as np  # noqa: E402

np.seterr(all="ignore")
import dimarray as da  # noqa: E402
from dimarray import DimArray, Dataset, Axis  # noqa: E402
from dimarray.core.axes import MultiAxis, Axes  # noqa: E402

assert os.path.realpath(da.__file__).startswith(REPO + os.sep), \
    "dimarray imported from {} instead of {}".format(da.__file__, REPO)

DEFAULT_OPTIONS = dict(da.rcParams)


def reset_options():
    for k, v in DEFAULT_OPTIONS.items():
        if da.rcParams.get(k) != v:
            da.rcParams[k] = v


# --------------------------------------------------------------------------------------------
# plain-python views of values
# --------------------------------------------------------------------------------------------
def isnan(x):
    return isinstance(x, (float, np.floating)) and x != x


def py(x):
    """numpy scalar / array -> plain python (nested lists); tuples preserved as tuples"""
    if isinstance(x, np.ndarray):
        return [py(v) for v in x] if x.ndim > 0 else py(x[()])
    if isinstance(x, np.generic):
        return x.item()
    if isinstance(x, tuple):
        return tuple(py(v) for v in x)
    if isinstance(x, list):
        return [py(v) for v in x]
    return x


def same_scalar(a, b, rtol=0.0):
    """NaN-aware equality of two python/numpy scalars (1 == 1.0 is True, 1 == True is True)."""
    a, b = py(a), py(b)
    if isnan(a) or isnan(b):
        return isnan(a) and isnan(b)
    if isinstance(a, tuple) or isinstance(b, tuple):
        return isinstance(a, tuple) and isinstance(b, tuple) and len(a) == len(b) \
            and all(same_scalar(x, y, rtol) for x, y in zip(a, b))
    if isinstance(a, str) != isinstance(b, str):
        return False
    try:
        if a == b:
            return True
    except Exception:
        return False
    if rtol and isinstance(a, (int, float)) and isinstance(b, (int, float)) \
            and not isinstance(a, bool) and not isinstance(b, bool):
        if math.isinf(a) or math.isinf(b):
            return a == b
        return abs(a - b) <= rtol * max(abs(a), abs(b), 1.0)
    return False


def same_list(a, b, rtol=0.0):
    a, b = list(a), list(b)
    return len(a) == len(b) and all(same_scalar(x, y, rtol) for x, y in zip(a, b))


def flat(values):
    """row-major flat python list of an ndarray (any dtype)"""
    arr = np.asarray(values)
    return [py(v) for v in arr.reshape(-1)] if arr.dtype == object else arr.reshape(-1).tolist()


def same_values(a, b, rtol=0.0):
    """NaN-aware comparison of two array-likes: shape and every cell."""
    a, b = np.asarray(a), np.asarray(b)
    if a.shape != b.shape:
        return False
    if a.dtype.kind in "fiub" and b.dtype.kind in "fiub" and rtol == 0.0:
        if a.dtype.kind == "f" or b.dtype.kind == "f":
            return bool(np.array_equal(a.astype(float), b.astype(float), equal_nan=True))
        return bool(np.array_equal(a, b))
    return same_list(flat(a), flat(b), rtol)


# --------------------------------------------------------------------------------------------
# snapshots
# --------------------------------------------------------------------------------------------
def freeze(x):
    """deep-freeze a metadata value into a hashable structure that keeps type information"""
    if isinstance(x, dict):
        return ("dict",) + tuple(sorted((str(k), freeze(v)) for k, v in x.items()))
    if isinstance(x, (list, tuple)):
        return (type(x).__name__,) + tuple(freeze(v) for v in x)
    if isinstance(x, np.ndarray):
        return ("nd", x.dtype.str, x.shape, x.tobytes() if x.dtype != object else tuple(freeze(v) for v in x.reshape(-1)))
    if isinstance(x, np.generic):
        x = x.item()
    if isnan(x):
        return ("nan",)
    if isinstance(x, (str, int, float, bool, type(None), bytes)):
        return (type(x).__name__, x)
    return ("repr", repr(x))


def axis_snap(ax):
    lab = py(ax.values)
    if isinstance(ax, MultiAxis):
        members = tuple((m.name, tuple(freeze(v) for v in py(m.values))) for m in ax.axes)
    else:
        members = None
    return (ax.name, tuple(freeze(v) for v in lab), ax.values.dtype.kind, members, freeze(dict(ax.attrs)))


def values_key(v):
    v = np.asarray(v)
    if v.dtype == object:
        return ("O", v.shape, tuple(freeze(x) for x in v.reshape(-1)))
    if v.dtype.kind == "f":
        w = np.array(v, dtype=v.dtype, copy=True)
        w[np.isnan(w)] = np.nan  # canonical NaN payload
        w = w + 0.0              # -0.0 stays -0.0 (bytes differ) : acceptable, inputs avoid it
        return (v.dtype.str, v.shape, w.tobytes())
    return (v.dtype.str, v.shape, np.ascontiguousarray(v).tobytes())


def snap(obj):
    """Full observable snapshot of a DimArray / Dataset / Axis / scalar, hashable."""
    if isinstance(obj, DimArray):
        return ("DimArray", values_key(obj.values), tuple(axis_snap(ax) for ax in obj.axes), freeze(dict(obj.attrs)))
    if isinstance(obj, Dataset):
        return ("Dataset", tuple(axis_snap(ax) for ax in obj.axes),
                tuple((str(k), snap(dict.__getitem__(obj, k))) for k in obj.keys()), freeze(dict(obj.attrs)))
    if isinstance(obj, Axis):
        return ("Axis",) + axis_snap(obj)
    if isinstance(obj, np.ndarray):
        return ("ndarray", values_key(obj))
    if isinstance(obj, (list, tuple)):
        return (type(obj).__name__,) + tuple(snap(o) for o in obj)
    if isinstance(obj, dict):
        return ("dict",) + tuple((str(k), snap(v)) for k, v in obj.items())
    return freeze(obj)


def digest(x):
    return hashlib.md5(repr(x).encode()).hexdigest()


def describe(obj, maxlen=400):
    """short human-readable description used in violation details"""
    try:
        if isinstance(obj, DimArray):
            s = "DimArray(dims={}, labels={}, values={}, dtype={}, attrs={})".format(
                obj.dims, [py(ax.values) for ax in obj.axes], py(obj.values), obj.values.dtype, dict(obj.attrs))
        elif isinstance(obj, Dataset):
            s = "Dataset(axes={}, vars={})".format(
                [(ax.name, py(ax.values)) for ax in obj.axes],
                {k: describe(dict.__getitem__(obj, k), 150) for k in obj.keys()})
        elif isinstance(obj, BaseException):
            s = "{}: {}".format(type(obj).__name__, str(obj).replace("\n", " "))
        else:
            s = repr(py(obj) if isinstance(obj, (np.ndarray, np.generic)) else obj)
    except Exception as e:  # pragma: no cover
        s = "<undescribable {}: {}>".format(type(obj).__name__, e)
    return s if len(s) <= maxlen else s[:maxlen] + "..."


# --------------------------------------------------------------------------------------------
# calling the implementation
# --------------------------------------------------------------------------------------------
class Raised(object):
    """outcome of a call that raised"""
    def __init__(self, exc):
        self.exc = exc
        self.cls = type(exc)

    def __repr__(self):
        return "Raised({})".format(describe(self.exc, 200))


def call(fn, *a, **k):
    """run fn, return its value or a Raised instance (never propagates library exceptions)"""
    try:
        return fn(*a, **k)
    except RecursionError as e:
        return Raised(e)
    except Exception as e:
        return Raised(e)
    # (global options are NOT reset here: what a call leaves behind in dimarray's rcParams must stay visible to the following calls of the
    # same case, as it would in a user's program; the engine resets them between cases - see engine.safe_check)


def leaked_options():
    """options whose value differs from the defaults recorded at import time"""
    return {k: da.rcParams.get(k) for k, v in DEFAULT_OPTIONS.items() if da.rcParams.get(k) != v}


def wellformed(a):
    """C05 structural invariant for one DimArray; returns None or a message"""
    if not isinstance(a, DimArray):
        return None
    v = a.values
    if not isinstance(v, np.ndarray):
        return "values is not an ndarray: {}".format(type(v))
    if len(a.axes) != v.ndim:
        return "{} axes for {} dimensions".format(len(a.axes), v.ndim)
    names = []
    for i, ax in enumerate(a.axes):
        av = np.asarray(ax.values)
        if av.ndim != 1:
            return "axis {} is {}-dimensional".format(i, av.ndim)
        if av.shape[0] != v.shape[i] or ax.size != v.shape[i]:
            return "axis {} has length {} but shape[{}]={}".format(ax.name, av.shape[0], i, v.shape[i])
        if not isinstance(ax.name, str) or not ax.name:
            return "axis {} has invalid name {!r}".format(i, ax.name)
        names.append(ax.name)
    if len(set(names)) != len(names):
        return "duplicate dimension names {}".format(names)
    return None
