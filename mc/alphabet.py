"""Union alphabet: one entry per (public non-in-place operation, argument class), shared by C15 (operand immutability)
and C05 (well-formedness of every array the library constructs while executing them).

Every entry is  name -> callable(env)  where env has
    a, b      two DimArrays over dims (x, y): x int labels stored unsorted, y str labels; b overlaps a
    a3        a 3-D array (x, y, z) with z a singleton dimension
    ds        a Dataset holding a, a 1-D and a 0-d variable
    da, np    the dimarray / numpy modules
Callables may raise (the case is then only used for the operand snapshots / the constructor monitor).
"""
import json
import numpy as np
from mc import common
from mc.common import da, DimArray, Dataset, Axis

X = "x"


def _mask_x(e):
    return np.array([True, False, True])


OPS = {
    # ---- indexing
    "getitem_scalar": lambda e: e.a[10], "getitem_list": lambda e: e.a[[20, 10]], "getitem_slice": lambda e: e.a[30:20],
    "getitem_tuple": lambda e: e.a[[10, 30], "a"], "getitem_mask": lambda e: e.a[_mask_x(e)], "getitem_ndmask": lambda e: e.a[e.a > 120],
    "ix": lambda e: e.a.ix[0:2, -1], "loc": lambda e: e.a.loc[10], "iloc": lambda e: e.a.iloc[[0, 0]], "nloc": lambda e: e.a.nloc[12.2],
    "sel": lambda e: e.a.sel(x=20), "isel": lambda e: e.a.isel(y=0), "take_dict": lambda e: e.a.take({"y": ["a"]}), "take_axis_kw": lambda e: e.a.take([10], axis="x"),
    "take_tol": lambda e: e.a.take(11, axis="x", tol=2), "take_keepdims": lambda e: e.a.take(10, keepdims=True), "take_broadcast": lambda e: e.a.take(([10, 20], ["a", "b"]), broadcast=True),
    "take_absent": lambda e: e.a[25], "iter": lambda e: list(e.a.iter("x")), "to_list": lambda e: e.a.to_list(),
    "take_axis": lambda e: e.a.take_axis([30, 10], axis="x"), "take_axis_pos": lambda e: e.a.take_axis([0, 0], axis=1, indexing="position"),
    "compress_axis": lambda e: e.a.compress_axis(_mask_x(e), axis="x"), "compress": lambda e: e.a.compress(e.a.values > 120),
    # ---- assignment returning a copy
    "put_copy": lambda e: e.a.put(10, -1, inplace=False), "put_copy_mask": lambda e: e.a.put(e.a.values > 120, 0, inplace=False),
    "put_copy_cast": lambda e: e.a.put({"x": 20}, "s", cast=True, inplace=False), "put_copy_pos": lambda e: e.a.put((0, 1), 5, indexing="position", inplace=False),
    "fillna": lambda e: e.a.fillna(0), "setna": lambda e: e.a.setna(111.0), "setna_mask": lambda e: e.a.setna(e.a > 120), "dropna": lambda e: e.an.dropna(axis="x"),
    "dropna_minvalid": lambda e: e.an.dropna(axis=1, minvalid=1), "set_axis_copy": lambda e: e.a.set_axis([1, 2, 3], axis="x", inplace=False),
    "set_axis_name_copy": lambda e: e.a.set_axis(name="w", axis="y", inplace=False), "set_axis_dict_copy": lambda e: e.a.set_axis({10: 11}, inplace=False),
    # ---- arithmetic and comparisons
    "add": lambda e: e.a + e.b, "sub_r": lambda e: e.b - e.a, "mul_scalar": lambda e: e.a * 2, "rdiv_scalar": lambda e: 2 / e.a, "rpow": lambda e: 2 ** e.a,
    "floordiv": lambda e: e.a // e.b, "add_nd": lambda e: e.a + np.ones(e.a.shape), "add_1d": lambda e: e.a + e.a1, "add_0d": lambda e: e.a + e.a0,
    "neg": lambda e: -e.a, "eq": lambda e: e.a == e.a, "eq_b": lambda e: e.a == e.b, "ne": lambda e: e.a != 3, "lt": lambda e: e.a < 120, "invert": lambda e: ~(e.a > 120),
    "and": lambda e: (e.a > 1) & (e.a < 120), "apply": lambda e: e.a.apply(np.sqrt), "array_ufunc": lambda e: np.sqrt(e.a), "nd_plus_da": lambda e: e.a.values + e.a,
    # ---- reductions and along-axis transforms
    "sum": lambda e: e.a.sum(axis="x"), "sum_all": lambda e: e.a.sum(), "mean_pos": lambda e: e.a.mean(axis=1), "mean_skipna": lambda e: e.an.mean(axis="x", skipna=True),
    "median": lambda e: e.an.median(axis=0), "std": lambda e: e.a.std(axis="y"), "var_tuple": lambda e: e.a3.var(axis=("x", "z")), "min": lambda e: e.a.min(axis=-1),
    "max_skipna": lambda e: e.an.max(axis="y", skipna=True), "ptp": lambda e: e.a.ptp(axis="x"), "prod": lambda e: e.a.prod(axis="y"), "all": lambda e: (e.a > 1).all(axis="x"),
    "any_skipna": lambda e: e.an.any(axis=0, skipna=True), "percentile": lambda e: da.percentile(e.a, [10, 90], axis="x"), "percentile_scalar": lambda e: da.percentile(e.a, 50, axis=1),
    "cumsum": lambda e: e.a.cumsum(), "cumprod": lambda e: e.a.cumprod(axis="x"), "diff": lambda e: e.a.diff(axis="x"), "diff_keep": lambda e: e.a.diff(axis="y", keepaxis=True, n=2),
    "diff_centered": lambda e: e.a.diff(axis="x", scheme="centered"), "argmin": lambda e: e.a.argmin(), "argmax_axis": lambda e: e.a.argmax(axis="x"),
    # ---- reshaping
    "T": lambda e: e.a.T, "transpose": lambda e: e.a3.transpose("z", "x", "y"), "swapaxes": lambda e: e.a3.swapaxes(0, "z"), "rollaxis": lambda e: e.a3.rollaxis("z", 1),
    "newaxis": lambda e: e.a.newaxis("n", pos=1), "newaxis_values": lambda e: e.a.newaxis("n", values=[1, 2], pos=-1), "squeeze": lambda e: e.a3.squeeze(),
    "squeeze_name": lambda e: e.a3.squeeze("z"), "repeat": lambda e: e.a3.repeat([1.5, 2.5], axis="z"), "broadcast": lambda e: e.a1.broadcast(e.a), "broadcast_axes": lambda e: e.a.broadcast(list(e.a3.axes)),
    "broadcast_arrays": lambda e: da.broadcast_arrays(e.a, e.a1, e.a3), "flatten": lambda e: e.a.flatten(), "flatten_sub": lambda e: e.a3.flatten(("z", "x"), insert=1),
    "flatten_labels": lambda e: e.a.flatten().labels, "unflatten": lambda e: e.a.flatten().unflatten(), "reshape": lambda e: e.a.reshape(e.a.dims[1], e.a.dims[0], "k"), "reshape_group": lambda e: e.a3.reshape(e.a3.dims[0] + ",z", "y"),
    "reshape_fail": lambda e: e.a.reshape("y", "k"),
    "reshape_same": lambda e: e.a.reshape(*e.a.dims), "group": lambda e: e.a.group(("x", "y")), "align_dims": lambda e: da.align_dims(e.a, e.a1),
    # ---- reindexing, aligning, sorting
    "reindex": lambda e: e.a.reindex_axis([10, 15, 30], axis="x"), "reindex_axisobj": lambda e: e.a.reindex_axis(e.b.axes["x"]), "reindex_fill": lambda e: e.a.reindex_axis(["a", "z"], axis="y", fill_value=-1),
    "reindex_samelen": lambda e: e.a.reindex_axis([30, 10, 15], axis=0), "reindex_samelen_f": lambda e: e.a.reindex_axis([29.5, 10, 20], axis=0, method="left"),
    "reindex_like_samelen": lambda e: e.a.reindex_like(DimArray(np.zeros(3), axes=[Axis(np.array([25, 5, 15]), e.a.dims[0])])),
    "reindex_method": lambda e: e.a.reindex_axis([12, 28], axis="x", method="left"), "reindex_raise": lambda e: e.a.reindex_axis([10, 11], axis="x", raise_error=True),
    "reindex_like": lambda e: e.a.reindex_like(e.b), "align_outer": lambda e: da.align([e.a, e.b]), "align_inner": lambda e: da.align([e.a, e.b], join="inner"),
    "align_sort": lambda e: da.align([e.a, e.b], sort=True), "align_sort_single": lambda e: da.align([e.a, e.a1], sort=True), "align_axis": lambda e: da.align([e.a, e.b, e.a1], axis="x", sort=True),
    "align_ds": lambda e: da.align([e.ds, e.b], sort=True), "sort_axis": lambda e: e.a.sort_axis(axis="x"), "sort_axis_key": lambda e: e.a.sort_axis(axis="y", key=lambda v: -ord(v)),
    # ---- interpolation
    "interp": lambda e: e.a.interp_axis([10, 15, 40], axis="x"), "interp_fill": lambda e: e.a.interp_axis([5, 30], axis=0, left=0, right=1), "interp_like": lambda e: e.a.interp_like(e.b),
    # ---- joining
    "stack": lambda e: da.stack([e.a, e.a], axis="s"), "stack_align": lambda e: da.stack([e.a, e.b], axis="s", align=True, sort=True), "stack_dict": lambda e: da.stack({"p": e.a, "q": e.a}, axis="s"),
    "stack_mismatch": lambda e: da.stack([e.a, e.b], axis="s"), "concatenate": lambda e: da.concatenate([e.a, e.a], axis="x"), "concatenate_align": lambda e: da.concatenate([e.a, e.b], axis="y", align=True, sort=True),
    "array_list": lambda e: da.array([e.a, e.b], axis="s"), "array_dict": lambda e: da.array({"p": e.a, "q": e.a1}, axis="s"),
    # ---- construction from / serialisation
    "DimArray_of": lambda e: DimArray(e.a), "copy": lambda e: e.a.copy(), "zeros_like": lambda e: da.zeros_like(e.a), "ones_like": lambda e: da.ones_like(e.a, dtype=int),
    "nans_like": lambda e: da.nans_like(e.a), "empty_like": lambda e: da.empty_like(e.a), "to_json": lambda e: DimArray.from_json(e.a.to_json()), "to_jsondict": lambda e: e.a.to_jsondict(),
    "to_MaskedArray": lambda e: e.an.to_MaskedArray(), "float": lambda e: float(e.a0), "contains": lambda e: 111.0 in e.a, "repr": lambda e: repr(e.a) + str(e.a3),
    "from_nested": lambda e: DimArray([{"p": e.a1, "q": e.a1}], dims=["n", "k", "x"]),
    # ---- Datasets
    "Dataset_ctor": lambda e: Dataset(a=e.a, b=e.b), "Dataset_ctor_list": lambda e: Dataset([("a", e.a), ("c", e.a1)]), "Dataset_setitem": lambda e: _ds_set(e),
    "to_dataset": lambda e: e.a.to_dataset(axis="y"), "ds_getitem_axis": lambda e: e.ds["x"], "ds_take": lambda e: e.ds.take(indices={"x": [10, 30]}), "ds_loc": lambda e: e.ds.loc[10],
    "ds_isel": lambda e: e.ds.isel(x=0), "ds_mean": lambda e: e.ds.mean(axis="x"), "ds_median": lambda e: e.ds.median(axis=1), "ds_take_axis": lambda e: e.ds.take_axis([10, 10], axis="x"),
    "ds_sort": lambda e: e.ds.sort_axis(axis="x"), "ds_reindex": lambda e: e.ds.reindex_axis([10, 15], axis="x"), "ds_reindex_like": lambda e: e.ds.reindex_like(e.b),
    "ds_interp": lambda e: e.ds.interp_axis([12.5, 50], axis="x"), "ds_interp_like": lambda e: e.ds.interp_like(e.b), "ds_add": lambda e: e.ds + e.ds, "ds_rsub": lambda e: 2 - e.ds,
    "ds_neg": lambda e: -e.ds, "ds_copy": lambda e: e.ds.copy(), "ds_to_array": lambda e: e.ds2.to_array(axis="v"), "ds_to_dict": lambda e: e.ds.to_dict(),
    "ds_set_axis_copy": lambda e: e.ds.set_axis([1, 2, 3], axis="x", inplace=False), "ds_rename_axes_copy": lambda e: e.ds.rename_axes({"x": "w"}, inplace=False),
    "ds_rename_keys_copy": lambda e: e.ds.rename_keys({"a": "z"}, inplace=False), "stack_ds": lambda e: da.stack_ds([e.ds, e.ds], axis="s"), "stack_ds_align": lambda e: da.stack_ds([e.ds2, e.ds2b], axis="s", align=True),
    "concatenate_ds": lambda e: da.concatenate_ds([e.ds2, e.ds2], axis="x"), "ds_eq": lambda e: e.ds == e.ds, "ds_repr": lambda e: repr(e.ds),
    # ---- the 1-D result of indexing with an N-d boolean mask (a plain axis named "x,y") as operand of everything that reshapes
    "mask_add": lambda e: e.am + e.w, "mask_rmul": lambda e: e.w * e.am, "mask_reshape": lambda e: e.am.reshape("new", e.am.dims[0]),
    "mask_broadcast": lambda e: e.am.broadcast([Axis(np.array([1, 2]), "k")] + list(e.am.axes)), "mask_bca": lambda e: da.broadcast_arrays(e.am, e.w),
    "mask_array": lambda e: da.array([e.am, e.w]), "mask_newaxis": lambda e: e.am.newaxis("n"), "mask_stack": lambda e: da.stack([e.am, e.am], axis="s"),
    # ---- an operand that already HAS the inserted single-label dimension (label None, from newaxis): broadcasting it onto a labelled target
    "none_broadcast": lambda e: e.n1.broadcast([Axis(np.array([5]), "n"), e.n1.axes[1].copy()]),
    # ... listed in the OTHER order by the target (the operand is transposed on the way: a new array on the same Axis objects)
    "none_broadcast_T": lambda e: e.n1.broadcast([e.n1.axes[1].copy(), Axis(np.array([5]), "n")]),
    "none_broadcast_T3": lambda e: e.n1.broadcast([e.n1.axes[1].copy(), Axis(np.array(["k"], dtype=object), "n"), Axis(np.array([1, 2]), "k")]),
    "none_bca_T": lambda e: da.broadcast_arrays(e.n1, DimArray(np.zeros((3, 1)), axes=[e.n1.axes[1].copy(), Axis(np.array([5]), "n")])),
    "none_add_T": lambda e: DimArray(np.zeros((3, 1)), axes=[e.n1.axes[1].copy(), Axis(np.array([5]), "n")]) + e.n1,
    "none_bca": lambda e: da.broadcast_arrays(e.n1, DimArray(np.zeros((1, 3)), axes=[Axis(np.array([5]), "n"), e.n1.axes[1].copy()])),
    "none_add": lambda e: e.n1 + DimArray(np.zeros((1, 3)), axes=[Axis(np.array([5]), "n"), e.n1.axes[1].copy()]),
    # ---- statistics of dimarray.lib.stats along an axis that is not the first one, on float labels
    "percentile_ax1": lambda e: da.percentile(e.fl, [50, 90], axis=1), "quantile_ax1": lambda e: _stats().quantile(e.fl, [0.5, 0.9], axis=1),
    "quantile_ax0": lambda e: _stats().quantile(e.fl, [0.5, 0.9], axis="p"), "quantile_scalar": lambda e: _stats().quantile(e.fl, 0.5, axis=-1),
    "none_array": lambda e: da.array([e.n1, DimArray(np.zeros((1, 3)), axes=[Axis(np.array([5]), "n"), e.n1.axes[1].copy()])], axis="s"),
}


def _stats():
    import dimarray.lib.stats as st
    return st


def _ds_set(e):
    d = Dataset()
    d["k"] = e.a
    d["l"] = e.a1
    d["k"] = e.a1          # replace by an array with fewer dimensions
    return d


class Env(object):
    pass


def make_env(variant="fresh", semicolon=False):
    """operands built so that an accidental in-place change is visible: unsorted axes, nested mutable metadata,
    arrays sharing Axis objects (squeeze / transpose aliases are kept in env.aliases)"""
    from mc import domains as D
    xn = "u;v" if semicolon else "x"
    attrs = {"units": "m", "meta": {"k": [1, 2]}, "hist": ["c"]}
    axattrs = {xn: {"long": ["X"]}, "y": {"units": "s"}}
    s3 = D.spec([xn, "y", "z"], [[30, 10, 20], ["b", "a"], [0.5]], ["i", "O", "f"], base=1, attrs=attrs, axattrs=axattrs)
    a3 = D.build_impl(s3)
    e = Env()
    e.a3 = a3
    if variant == "fresh":
        e.a = D.build_impl(D.spec([xn, "y"], [[30, 10, 20], ["b", "a"]], ["i", "O"], base=1, attrs=attrs, axattrs=axattrs))
    elif variant == "squeeze":
        e.a = a3.squeeze()           # shares its Axis objects with a3
    elif variant == "T":
        e.a = a3.squeeze().T.T
    else:
        raise ValueError(variant)
    e.aT = e.a.T                      # live alias sharing Axis objects with a
    e.an = D.build_impl(D.spec([xn, "y"], [[30, 10, 20], ["b", "a"]], ["i", "O"], base=1, nan=(1, 4), attrs=attrs))
    e.b = D.build_impl(D.spec([xn, "y"], [[40, 20, 10], ["c", "b"]], ["i", "O"], base=2, attrs={"other": [1]}))
    e.a1 = D.build_impl(D.spec([xn], [[20, 30, 10]], ["i"], base=3))
    e.a0 = D.build_impl(D.spec([], [], [], base=4))
    e.ds = Dataset()
    e.ds["a"] = e.a
    e.ds["c"] = e.a1.reindex_axis([30, 10, 20], axis=xn)
    e.ds["s"] = e.a0
    e.ds.attrs["title"] = ["t"]
    e.ds2 = Dataset()
    e.ds2["a"] = e.a
    e.ds2b = Dataset()
    e.ds2b["a"] = e.b
    e.am = e.an[e.an > float(np.nanmin(e.an.values))]       # public indexing: 1-D, its axis is a plain Axis named "<x>,y" with tuple labels
    e.w = D.build_impl(D.spec(["w"], [[7, 5]], ["i"], base=6))
    e.n1 = e.a1.newaxis("n")
    e.fl = D.build_impl(D.spec(["p", "q"], [[0.5, 1.5], [30.0, 10.0, 20.0]], ["f", "f"], base=8, attrs={"units": "m"}))
    e.flT = e.fl.T
    e.n1T = e.n1.T                    # live alias sharing the Axis objects of n1
    e.operands = {"a": e.a, "aT": e.aT, "a3": e.a3, "an": e.an, "b": e.b, "a1": e.a1, "a0": e.a0, "ds": e.ds, "ds2": e.ds2, "ds2b": e.ds2b,
                  "am": e.am, "w": e.w, "n1": e.n1, "n1T": e.n1T, "fl": e.fl, "flT": e.flT}
    return e


def adapt(name, semicolon):
    """entries of OPS refer to the dimension 'x'; with the ';' variant only the operations that do not name x are used,
    plus the reshape family which is what the variant is for"""
    return name in SEMI_OPS


SEMI_OPS = ["reshape", "reshape_fail", "reshape_same", "reshape_group", "flatten", "unflatten", "T", "newaxis", "add", "align_outer", "stack", "Dataset_ctor", "sum_all", "cumsum", "copy",
            "mask_add", "mask_rmul", "mask_reshape", "mask_broadcast", "mask_bca", "mask_array", "mask_newaxis", "mask_stack",
            "none_broadcast", "none_bca", "none_add", "none_array", "none_broadcast_T", "none_broadcast_T3", "none_bca_T", "none_add_T",
            "percentile_ax1", "quantile_ax1", "quantile_ax0", "quantile_scalar"]
