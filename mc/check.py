"""CLI:  /venv/bin/python -m mc.check <ID> [--tier quick|thorough] [--seed N] [--replay FILE] [--jobs N]

exit 0: the property held on everything explored (known findings are printed as KNOWN-FINDING lines)
exit 1: at least one violation; one line `VIOLATION property=<id> replay=<path>` per stored violation
"""
import os, sys, json, argparse


def main(argv=None):
    ap = argparse.ArgumentParser()
    ap.add_argument("prop")
    ap.add_argument("--tier", default=None)
    ap.add_argument("--seed", type=int, default=None)
    ap.add_argument("--replay", default=None)
    ap.add_argument("--jobs", type=int, default=None)
    a = ap.parse_args(argv)
    os.environ.setdefault("PYTHONHASHSEED", "0")
    tier = a.tier or os.environ.get("VERIF_TIER") or "quick"
    if tier not in ("quick", "thorough"):
        tier = "quick"
    seed = a.seed if a.seed is not None else int(os.environ.get("VERIF_SEED", "0") or 0)
    from mc import engine
    if a.replay:
        rec = json.load(open(a.replay))
        mod = engine._load(a.prop)
        r = engine.replay_case(mod, rec["case"])
        print("case:", json.dumps(rec["case"], default=engine._jdefault))
        if rec.get("snippet"):
            print("stand-alone snippet:\n" + rec["snippet"])
        print("result:", "OK (property holds on this case)" if r["ok"] else "VIOLATION " + r.get("detail", ""))
        return 0 if r["ok"] else 1
    return engine.run_property(a.prop.upper(), tier=tier, seed=seed, jobs=a.jobs)


if __name__ == "__main__":
    sys.exit(main())
