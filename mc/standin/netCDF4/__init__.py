"""Stand-in for the netCDF4-python package (absent from the sandbox): a file-backed MODEL of the API subset that
dimarray/io/nc.py touches, written from the netCDF4-python documentation and independently of nc.py.

What is modelled
  Dataset(path, mode, clobber, diskless, persist, format): modes r / w / a / r+, clobber, file_format, ordered `dimensions`
  (Dimension: len(), isunlimited()) and `variables`, createDimension(name, size|None), createVariable(name, datatype, dimensions,
  fill_value=, zlib=..., ...) with str -> variable-length string variable, NETCDF3 formats refusing int64 / unsigned / str,
  renameVariable / renameDimension, setncattr / getncattr / delncattr / ncattrs (+ attribute-style access), sync / close,
  context manager.  Variable: dimensions, dtype, shape, ndim, size, datatype, __len__, __getitem__ / __setitem__ with netCDF4's
  ORTHOGONAL indexing (ints drop a dimension; slices, integer sequences and boolean vectors index each dimension independently),
  growth of unlimited dimensions on assignment past the end (all variables on that dimension grow; never-written cells hold the
  default fill value and are returned masked), masked arrays returned only when a cell equals _FillValue / missing_value / the
  default fill (netCDF4-python <= 1.3 behaviour, the versions dimarray documents having been tested with), scalar variables
  returned as 0-d arrays.
Persistence is a pickle of the model written on close() / sync() and re-read on open, so write -> close -> reopen -> read and
multi-file reads go through real files.  Everything concluded about netCDF I/O with this module is relative to this model.
Leniencies granted because the library versions dimarray was tested with accept them (documented in DESIGN.md 3.7):
  * an index given as a one-element list holding a slice ([slice(None)]) is treated as that slice.
"""
import os
import pickle
import collections
import numpy as np

__version__ = "0.0-standin"
default_fillvals = {"S1": "\x00", "i1": -127, "u1": 255, "i2": -32767, "u2": 65535, "i4": -2147483647, "u4": 4294967295,
                    "i8": -9223372036854775806, "u8": 18446744073709551614, "f4": 9.969209968386869e+36, "f8": 9.969209968386869e+36}
_FORMATS = ("NETCDF4", "NETCDF4_CLASSIC", "NETCDF3_CLASSIC", "NETCDF3_64BIT", "NETCDF3_64BIT_OFFSET", "NETCDF3_64BIT_DATA")
_MAGIC = b"NCSTANDIN1"


class Dimension(object):
    def __init__(self, name, size):
        self._name = name
        self._unlimited = size is None
        self._size = 0 if size is None else int(size)

    @property
    def name(self):
        return self._name

    @property
    def size(self):
        return self._size

    def __len__(self):
        return self._size

    def isunlimited(self):
        return self._unlimited

    def __repr__(self):
        return "<standin Dimension {} size={}{}>".format(self._name, self._size, " unlimited" if self._unlimited else "")


class _HasAttrs(object):
    def _check_open(self):
        pass

    def setncattr(self, name, value):
        self._check_open()
        self._writable()
        if not isinstance(name, str):
            raise TypeError("attribute name must be a string")
        if value is None or isinstance(value, (dict, set)):
            raise TypeError("illegal data type for attribute {!r}: {}".format(name, type(value).__name__))
        if isinstance(value, (bool, np.bool_)):
            raise TypeError("illegal data type for attribute {!r}, must be one of str / int / float (got bool)".format(name))
        if isinstance(value, str):
            v = value
        else:
            arr = np.asarray(value)
            if arr.dtype.kind == "b":
                raise TypeError("illegal data type for attribute {!r} (bool)".format(name))
            if arr.dtype.kind == "O":
                if all(isinstance(x, str) for x in arr.reshape(-1)):
                    arr = np.array([str(x) for x in arr.reshape(-1)])
                else:
                    raise TypeError("illegal data type for attribute {!r}".format(name))
            if arr.dtype.kind not in "iufSU":
                raise TypeError("illegal data type for attribute {!r}: {}".format(name, arr.dtype))
            if getattr(self, "_root", self)._format.startswith("NETCDF3") and arr.dtype.kind == "i" and arr.dtype.itemsize == 8:
                arr = arr.astype("i4")
            v = arr.reshape(-1) if arr.ndim != 1 else arr
            if v.size == 1:
                v = v[0]
        self._attrs[name] = v

    def getncattr(self, name):
        self._check_open()
        if name not in self._attrs:
            raise AttributeError("NetCDF: Attribute not found: {}".format(name))
        return self._attrs[name]

    def delncattr(self, name):
        self._check_open()
        self._writable()
        if name not in self._attrs:
            raise AttributeError("NetCDF: Attribute not found: {}".format(name))
        del self._attrs[name]

    def ncattrs(self):
        self._check_open()
        return list(self._attrs.keys())

    def __getattr__(self, name):
        if name.startswith("_"):
            raise AttributeError(name)
        attrs = self.__dict__.get("_attrs", {})
        if name in attrs:
            return attrs[name]
        raise AttributeError("{} has no attribute {!r}".format(type(self).__name__, name))


def _dtype_of(datatype):
    if datatype is str or datatype == "str":
        return str
    dt = np.dtype(datatype)
    if dt.kind in "SU" and dt.itemsize in (0, 1, 4) and dt.kind == "S":
        return np.dtype("S1")
    if dt.kind in "OU":
        return str
    if dt.kind == "b":
        raise TypeError("illegal primitive data type, must be one of i1, u1, i2, u2, i4, u4, i8, u8, f4, f8, S1 (got bool)")
    if dt.kind not in "iufS":
        raise TypeError("illegal primitive data type {}".format(dt))
    return dt


class Variable(_HasAttrs):
    def __init__(self, root, name, datatype, dimensions, fill_value=None):
        self._root = root
        self._name = name
        self._dtype = _dtype_of(datatype)
        self._dims = tuple(dimensions)
        self._attrs = collections.OrderedDict()
        shape = tuple(len(root.dimensions[d]) for d in self._dims)
        if self._dtype is str:
            self._data = np.empty(shape, dtype=object)
            self._data[...] = ""
            self._written = np.zeros(shape, dtype=bool)
            self._fill = ""
        else:
            self._fill = default_fillvals[self._dtype.str[1:]] if self._dtype.kind != "S" else b"\x00"
            if fill_value is not None and fill_value is not False:
                self._fill = np.asarray(fill_value).astype(self._dtype).item() if self._dtype.kind != "S" else fill_value
                self._attrs["_FillValue"] = np.asarray(fill_value).astype(self._dtype)[()] if self._dtype.kind != "S" else fill_value
            self._data = np.empty(shape, dtype=self._dtype)
            self._data[...] = self._fill
            self._written = np.zeros(shape, dtype=bool)

    # --- plumbing
    def _check_open(self):
        self._root._check_open()

    def _writable(self):
        self._root._writable()

    @property
    def name(self):
        return self._name

    @property
    def dimensions(self):
        return self._dims

    @property
    def dtype(self):
        return self._dtype

    @property
    def datatype(self):
        return self._dtype

    @property
    def shape(self):
        return tuple(len(self._root.dimensions[d]) for d in self._dims)

    @property
    def ndim(self):
        return len(self._dims)

    @property
    def size(self):
        return int(np.prod(self.shape)) if self._dims else 1

    def __len__(self):
        if not self._dims:
            raise TypeError("len() of unsized object")
        return self.shape[0]

    def __array__(self, dtype=None, copy=None):
        arr = np.asarray(self[...])
        return arr.astype(dtype) if dtype is not None else arr

    def __repr__(self):
        return "<standin Variable {} {} {}>".format(self._name, self._dims, self.shape)

    def _sync_shape(self):
        """grow the storage to the current dimension sizes (unlimited dimensions)"""
        shape = self.shape
        if self._data.shape != shape:
            new = np.empty(shape, dtype=self._data.dtype)
            new[...] = self._fill
            w = np.zeros(shape, dtype=bool)
            sl = tuple(slice(0, min(a, b)) for a, b in zip(self._data.shape, shape))
            new[sl] = self._data[sl]
            w[sl] = self._written[sl]
            self._data, self._written = new, w

    # --- indexing
    def _normalise(self, key, for_write=False):
        """-> list of per-dimension indexers: int | ndarray of ints (orthogonal)"""
        if not isinstance(key, tuple):
            key = (key,)
        key = list(key)
        # leniency: one-element list holding a slice
        key = [k[0] if isinstance(k, list) and len(k) == 1 and isinstance(k[0], slice) else k for k in key]
        n = self.ndim
        if sum(1 for k in key if k is Ellipsis) > 1:
            raise IndexError("an index can only have a single ellipsis")
        if any(k is Ellipsis for k in key):
            i = [j for j, k in enumerate(key) if k is Ellipsis][0]
            key = key[:i] + [slice(None)] * (n - (len(key) - 1)) + key[i + 1:]
        if len(key) > n:
            if n == 0 and all(isinstance(k, slice) and k == slice(None) for k in key):
                key = []
            else:
                raise IndexError("too many indices for variable {} with {} dimensions".format(self._name, n))
        key = key + [slice(None)] * (n - len(key))
        out = []
        shape = self.shape
        for d, k in enumerate(key):
            size = shape[d]
            unlimited = self._root.dimensions[self._dims[d]].isunlimited()
            if isinstance(k, (bool, np.bool_)):
                raise IndexError("boolean scalar index not supported")
            if isinstance(k, (int, np.integer)):
                k = int(k)
                if k < 0:
                    k += size
                if k < 0 or (k >= size and not (for_write and unlimited)):
                    raise IndexError("index {} out of range for dimension {} of size {}".format(k, self._dims[d], size))
                out.append(k)
            elif isinstance(k, slice):
                if for_write and unlimited:
                    start, stop, step = k.start, k.stop, k.step
                    step = 1 if step is None else step
                    if stop is None or (stop is not None and stop <= size):
                        out.append(np.arange(size)[k])
                        if stop is None and step > 0:
                            out[-1] = ("open", 0 if start is None else (start + size if start < 0 else start), step)
                    else:
                        out.append(np.arange(max(size, stop))[k])
                else:
                    out.append(np.arange(size)[k])
            else:
                arr = np.asarray(k)
                if arr.ndim == 0:
                    out.append(int(arr))
                    continue
                if arr.ndim != 1:
                    raise IndexError("Index cannot be multidimensional")
                if arr.dtype.kind == "b":
                    if arr.shape[0] != size:
                        raise IndexError("Boolean array must have the same shape as the data along this dimension")
                    out.append(np.nonzero(arr)[0])
                elif arr.size == 0:
                    out.append(np.zeros(0, dtype=int))
                elif arr.dtype.kind in "iu":
                    arr = arr.astype(int)
                    arr = np.where(arr < 0, arr + size, arr)
                    if (arr < 0).any() or ((arr >= size).any() and not (for_write and unlimited)):
                        raise IndexError("integer index exceeds dimension size")
                    out.append(arr)
                else:
                    raise IndexError("only integers, slices (`:`), ellipsis (`...`), and 1-d integer or boolean arrays are valid indices")
        return out

    def __getitem__(self, key):
        self._check_open()
        self._sync_shape()
        idx = self._normalise(key)
        data, written = self._data, self._written
        for d in range(self.ndim - 1, -1, -1):
            data = np.take(data, idx[d], axis=d)
            written = np.take(written, idx[d], axis=d)
        if self._dtype is str:
            if np.ndim(data) == 0:
                return str(data[()] if isinstance(data, np.ndarray) else data)
            return np.array(data, dtype=object, copy=True)
        data = np.array(data, copy=True)
        mask = ~np.asarray(written)
        for nm in ("_FillValue", "missing_value"):
            if nm in self._attrs:
                with np.errstate(all="ignore"):
                    mask = mask | (data == np.asarray(self._attrs[nm]).astype(data.dtype))
        if np.any(mask):
            return np.ma.MaskedArray(data, mask=mask)
        return data

    def __setitem__(self, key, value):
        self._check_open()
        self._writable()
        self._sync_shape()
        idx = self._normalise(key, for_write=True)
        if self._dtype is str:
            val = np.asarray(value, dtype=object)
        else:
            if isinstance(value, np.ma.MaskedArray):
                value = value.filled(self._fill)
            val = np.asarray(value)
            if val.dtype.kind in "OU" and self._dtype.kind != "S":
                raise TypeError("cannot assign strings to a numeric variable")
        # resolve open-ended slices on unlimited dimensions from the shape of the data
        kept = [d for d in range(self.ndim) if not isinstance(idx[d], int)]
        for j, d in enumerate(kept):
            if isinstance(idx[d], tuple):
                _, start, step = idx[d]
                vshape = val.shape[-(len(kept) - j)] if val.ndim >= len(kept) - j else 1
                cur = self.shape[d]
                n = max(vshape, len(range(start, cur, step)))
                idx[d] = start + step * np.arange(n)
        # grow unlimited dimensions
        for d in range(self.ndim):
            top = (idx[d] if isinstance(idx[d], int) else (int(np.max(idx[d])) if np.size(idx[d]) else -1)) + 1
            dim = self._root.dimensions[self._dims[d]]
            if top > len(dim):
                if not dim.isunlimited():
                    raise IndexError("index exceeds dimension bounds")
                dim._size = top
        for v in self._root.variables.values():
            v._sync_shape()
        selshape = tuple(len(idx[d]) for d in kept)
        try:
            val = np.broadcast_to(val, selshape)
        except ValueError:
            if val.size == int(np.prod(selshape)):
                val = val.reshape(selshape)
            else:
                raise IndexError("shape mismatch: cannot assign data of shape {} to a selection of shape {}".format(val.shape, selshape))
        ix = np.ix_(*[np.atleast_1d(i) for i in idx]) if self.ndim else ()
        full = val.reshape(tuple(1 if isinstance(idx[d], int) else len(idx[d]) for d in range(self.ndim)))
        if self._dtype is str:
            self._data[ix] = full
        else:
            self._data[ix] = full.astype(self._dtype)
        self._written[ix] = True


class Dataset(_HasAttrs):
    def __init__(self, filename, mode="r", clobber=True, format="NETCDF4", diskless=False, persist=False, **kwargs):
        if mode not in ("r", "w", "a", "r+", "rs", "ws", "as", "r+s"):
            raise ValueError("mode must be 'w', 'r', 'a' or 'r+', got {!r}".format(mode))
        mode = mode.rstrip("s") if mode.endswith("s") and mode != "s" else mode
        if format not in _FORMATS:
            raise ValueError("format must be one of {}, got {!r}".format(_FORMATS, format))
        self._path = os.fspath(filename)
        self._mode = mode
        self._open = True
        self._diskless = diskless and not persist
        if mode == "w":
            if os.path.exists(self._path) and not clobber:
                raise IOError("NetCDF: File exists && NC_NOCLOBBER: {!r}".format(self._path))
            self._format = format
            self._attrs = collections.OrderedDict()
            self.dimensions = collections.OrderedDict()
            self.variables = collections.OrderedDict()
            self._flush()
        else:
            if not os.path.exists(self._path):
                raise IOError("No such file or directory: {!r}".format(self._path))
            with open(self._path, "rb") as f:
                if f.read(len(_MAGIC)) != _MAGIC:
                    raise IOError("NetCDF: Unknown file format: {!r}".format(self._path))
                state = pickle.load(f)
            self._format = state["format"]
            self._attrs = state["attrs"]
            self.dimensions = state["dimensions"]
            self.variables = state["variables"]
            for v in self.variables.values():
                v._root = self

    # --- state
    @property
    def file_format(self):
        return self._format

    @property
    def data_model(self):
        return self._format

    def filepath(self):
        return self._path

    def isopen(self):
        return self._open

    def _check_open(self):
        if not self._open:
            raise RuntimeError("NetCDF: Not a valid ID (file is closed)")

    def _writable(self):
        if self._mode == "r":
            raise RuntimeError("NetCDF: Write to read only")

    def _flush(self):
        if self._diskless or self._mode == "r":
            return
        for v in self.variables.values():
            v._sync_shape()
        state = {"format": self._format, "attrs": self._attrs, "dimensions": self.dimensions, "variables": self.variables}
        roots = [(v, v._root) for v in self.variables.values()]
        for v, _ in roots:
            v._root = None
        try:
            tmp = self._path + ".tmp%d" % os.getpid()
            with open(tmp, "wb") as f:
                f.write(_MAGIC)
                pickle.dump(state, f, protocol=pickle.HIGHEST_PROTOCOL)
            os.replace(tmp, self._path)
        finally:
            for v, r in roots:
                v._root = r

    def sync(self):
        self._check_open()
        self._flush()

    def close(self):
        if self._open:
            self._flush()
            self._open = False

    def __enter__(self):
        return self

    def __exit__(self, *a):
        self.close()

    def __repr__(self):
        return "<standin netCDF4.Dataset {} {} dims={} vars={}>".format(self._path, self._format, list(self.dimensions), list(self.variables))

    # --- definitions
    def createDimension(self, dimname, size=None):
        self._check_open()
        self._writable()
        if dimname in self.dimensions:
            raise RuntimeError("NetCDF: String match to name in use: {}".format(dimname))
        if size is None and self._format.startswith("NETCDF3") and any(d.isunlimited() for d in self.dimensions.values()):
            raise RuntimeError("NetCDF: NC_UNLIMITED size already in use")
        if size is not None and int(size) < 0:
            raise ValueError("dimension size must be >= 0")
        self.dimensions[dimname] = Dimension(dimname, size)
        return self.dimensions[dimname]

    def createVariable(self, varname, datatype, dimensions=(), zlib=False, complevel=4, shuffle=True, fletcher32=False, contiguous=False,
                       chunksizes=None, endian="native", least_significant_digit=None, fill_value=None, **kwargs):
        self._check_open()
        self._writable()
        if isinstance(dimensions, str):
            dimensions = (dimensions,)
        if varname in self.variables:
            raise RuntimeError("NetCDF: String match to name in use: {}".format(varname))
        for d in dimensions:
            if d not in self.dimensions:
                raise KeyError("dimension {!r} not found".format(d))
        dt = _dtype_of(datatype)
        if self._format.startswith("NETCDF3") or self._format == "NETCDF4_CLASSIC":
            if dt is str:
                raise ValueError("variable-length strings are only supported by the NETCDF4 format")
            if dt.kind == "u" or (dt.kind == "i" and dt.itemsize == 8):
                raise ValueError("NetCDF: Attempting netcdf-4 operation on strict nc3 netcdf-4 file: {} not available in {}".format(dt, self._format))
        self.variables[varname] = Variable(self, varname, datatype, dimensions, fill_value=fill_value)
        return self.variables[varname]

    def renameVariable(self, oldname, newname):
        self._check_open()
        self._writable()
        if newname in self.variables:
            raise RuntimeError("NetCDF: String match to name in use")
        self.variables = collections.OrderedDict((newname if k == oldname else k, v) for k, v in self.variables.items())
        self.variables[newname]._name = newname

    def renameDimension(self, oldname, newname):
        self._check_open()
        self._writable()
        if newname in self.dimensions:
            raise RuntimeError("NetCDF: String match to name in use")
        self.dimensions = collections.OrderedDict((newname if k == oldname else k, v) for k, v in self.dimensions.items())
        self.dimensions[newname]._name = newname
        for v in self.variables.values():
            v._dims = tuple(newname if d == oldname else d for d in v._dims)


def num2date(*a, **k):   # pragma: no cover - datetime axes are outside the modelled subset
    raise NotImplementedError("stand-in: datetime conversion not modelled")


date2num = num2date
