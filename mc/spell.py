"""Equivalent spellings of one (encoded) index tuple on a DimArray-like object."""
from mc.ref import decode_ix

LABEL_SPELLINGS = ["getitem", "take", "dictn", "dicti", "loc", "sel", "axisn", "axisp", "takelab"]
POS_SPELLINGS = ["ix", "iloc", "isel", "takepos", "dictpos", "axispos"]


def dec_tuple(ixs, kinds, mode="label"):
    if mode == "position":
        kinds = ["i"] * len(ixs)
    return tuple(decode_ix(ix, kinds[i] if i < len(kinds) and ix[0] != "e" else None) for i, ix in enumerate(ixs))


def nonfull(ixs):
    return [(i, ix) for i, ix in enumerate(ixs) if ix[0] != "full"]


def applicable(spelling, ixs, ndim):
    """can this spelling express the index tuple? (dict / axis= forms cannot express Ellipsis)"""
    has_e = any(ix[0] == "e" for ix in ixs)
    nf = nonfull(ixs)
    if spelling in ("dictn", "dicti", "sel", "isel", "dictpos"):
        return not has_e and len(ixs) <= ndim
    if spelling in ("axisn", "axisp", "axispos"):
        return not has_e and len(nf) == 1 and len(ixs) <= ndim
    return True


def index_arg(ixs, kinds):
    t = dec_tuple(ixs, kinds)
    return t


def make_pre(ixs, kinds, dims, mode="label"):
    """the index objects of every spelling, built WITHOUT calling the library (same construction as in get): lets a caller snapshot them before
    the call and see afterwards whether the library modified what it was given"""
    if mode == "position":
        kinds = ["i"] * max(len(ixs), len(kinds))
    nf = nonfull(ixs)
    pre = {"t": dec_tuple(ixs, kinds)}
    ok_dict = all(ix[0] != "e" for ix in ixs) and len(ixs) <= len(dims)
    if ok_dict:
        pre["dn"] = {dims[i]: decode_ix(ix, kinds[i]) for i, ix in nf}
        pre["di"] = {i: decode_ix(ix, kinds[i]) for i, ix in nf}
        if len(nf) == 1:
            pre["ax"] = decode_ix(nf[0][1], kinds[nf[0][0]])
    return pre


def get(a, ixs, spelling, kinds, dims=None, tol=None, keepdims=False, mode="label", pre=None):
    """read with the given spelling; label-mode spellings first, then position-mode ones.
    pre: a dict owned by the caller; the index objects (tuple, lists, ndarrays, {dim: index} mapping) are built once and kept in it, so that
    a second call with the same `pre` passes the SAME objects again (a caller re-using its index)"""
    pre = {} if pre is None else pre

    def once(key, build):
        if key not in pre:
            pre[key] = build()
        return pre[key]
    dims = dims or list(a.dims)
    if mode == "position":
        kinds = ["i"] * max(len(ixs), len(kinds))
    t = once("t", lambda: dec_tuple(ixs, kinds))
    kw = {}
    if tol is not None:
        kw["tol"] = tol
    if keepdims:
        kw["keepdims"] = True
    nf = nonfull(ixs)
    if spelling == "getitem":
        if kw:
            return a.take(t, **kw)
        return a[t[0]] if len(t) == 1 else a[t]
    if spelling == "take":
        return a.take(t, **kw)
    if spelling == "takelab":
        return a.take(t, indexing="label", **kw)
    if spelling == "loc":
        if kw:
            return a.take(t, indexing="label", **kw)
        return a.loc[t[0]] if len(t) == 1 else a.loc[t]
    if spelling == "nloc":
        return a.nloc[t[0]] if len(t) == 1 else a.nloc[t]
    if spelling == "dictn":
        return a.take(once("dn", lambda: {dims[i]: decode_ix(ix, kinds[i]) for i, ix in nf}), **kw)
    if spelling == "dicti":
        return a.take(once("di", lambda: {i: decode_ix(ix, kinds[i]) for i, ix in nf}), **kw)
    if spelling == "sel":
        if kw:
            return a.take(once("dn", lambda: {dims[i]: decode_ix(ix, kinds[i]) for i, ix in nf}), indexing="label", **kw)
        return a.sel(**once("dn", lambda: {dims[i]: decode_ix(ix, kinds[i]) for i, ix in nf}))
    if spelling == "axisn":
        i, ix = nf[0]
        return a.take(once("ax", lambda: decode_ix(ix, kinds[i])), axis=dims[i], **kw)
    if spelling == "axisp":
        i, ix = nf[0]
        return a.take(once("ax", lambda: decode_ix(ix, kinds[i])), axis=i, **kw)
    # ---- position mode
    if spelling == "ix":      # only valid when the array's own mode is 'label' (ix toggles)
        return a.ix[t[0]] if len(t) == 1 else a.ix[t]
    if spelling == "iloc":
        return a.iloc[t[0]] if len(t) == 1 else a.iloc[t]
    if spelling == "isel":
        return a.isel(**once("dn", lambda: {dims[i]: decode_ix(ix, kinds[i]) for i, ix in nf}))
    if spelling == "takepos":
        return a.take(t, indexing="position", **kw)
    if spelling == "dictpos":
        return a.take(once("dn", lambda: {dims[i]: decode_ix(ix, kinds[i]) for i, ix in nf}), indexing="position", **kw)
    if spelling == "axispos":
        i, ix = nf[0]
        return a.take(once("ax", lambda: decode_ix(ix, kinds[i])), axis=dims[i], indexing="position", **kw)
    raise ValueError(spelling)


def put(a, ixs, value, spelling, kinds, dims=None, mode="label", **kw):
    """assignment spellings (C03, C20).  Returns the modified copy when inplace=False."""
    dims = dims or list(a.dims)
    own = getattr(a, "_indexing", None) or "label"       # the array's own mode ('indexing.by' when it was built): .ix toggles away from it
    if mode == "position" or spelling in ("ilocset", "putpos") or (spelling == "ixset" and own != "position"):
        kinds = ["i"] * max(len(ixs), len(kinds))
    t = dec_tuple(ixs, kinds)
    nf = nonfull(ixs)
    if spelling == "setitem":
        if len(t) == 1:
            a[t[0]] = value
        else:
            a[t] = value
        return None
    if spelling == "put":
        return a.put(t, value, **kw)
    if spelling == "putdict":
        return a.put({dims[i]: decode_ix(ix, kinds[i]) for i, ix in nf}, value, **kw)
    if spelling == "putaxis":
        i, ix = nf[0]
        return a.put(decode_ix(ix, kinds[i]), value, axis=dims[i], **kw)
    if spelling == "locset":
        if len(t) == 1:
            a.loc[t[0]] = value
        else:
            a.loc[t] = value
        return None
    if spelling == "ixset":
        if len(t) == 1:
            a.ix[t[0]] = value
        else:
            a.ix[t] = value
        return None
    if spelling == "ilocset":
        if len(t) == 1:
            a.iloc[t[0]] = value
        else:
            a.iloc[t] = value
        return None
    if spelling == "putpos":
        return a.put(t, value, indexing="position", **kw)
    if spelling == "putlab":
        return a.put(t, value, indexing="label", **kw)
    raise ValueError(spelling)
